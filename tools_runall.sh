#!/bin/bash
# usage: tools_runall.sh [tier] [ids...] ; runs every registered check on /repo's current tree, one after the other, and prints wall time and verdict lines
tier=${1:-quick}; shift
ids=${@:-$(seq -f 'C%02g' 1 20)}
cd /verif
for id in $ids; do
  s=$(date +%s); ./run $id $tier > /tmp/runall_${tier}_$id.log 2>&1; rc=$?; e=$(date +%s)
  echo "$id $tier rc=$rc wall=$((e-s))s inconclusive=$(grep -c '^INCONCLUSIVE' /tmp/runall_${tier}_$id.log) known=$(grep -c '^KNOWN-FINDING' /tmp/runall_${tier}_$id.log) $(grep -E '^VIOLATION|^HARNESS-ERROR' /tmp/runall_${tier}_$id.log | head -2 | cut -c1-140)"
done
