#!/bin/bash
# usage: tools_seed.sh <worktree> ; confirms a seeded change in its scratch worktree: suite unchanged, demo fails with / passes without
wt=$1
cd $wt || exit 2
git checkout -q -- fakesnow; git apply seed_out/patch.diff || { echo "PATCH DOES NOT APPLY"; exit 3; }
echo "== suite with change"; /venv/bin/python -m pytest -q -p no:cacheprovider 2>&1 | tail -1
demo=seed_out/demo.py; [ -f $demo ] || demo=seed_out/demo_test.py
run() { if [[ $demo == *_test.py ]]; then PYTHONPATH=. /venv/bin/python -m pytest -q -p no:cacheprovider $demo >/dev/null 2>&1; else PYTHONPATH=. /venv/bin/python $demo >/dev/null 2>&1; fi; echo $?; }
echo "== demo with change (expect non-zero): $(run)"
git apply -R seed_out/patch.diff
echo "== demo without change (expect 0): $(run)"
git apply seed_out/patch.diff
git status --short | head -5
