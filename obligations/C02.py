"""C02 - unquoted identifiers fold to upper case; quoted ones are kept verbatim.

Engine E1.  (a) the real folding transform and identifier comparison on symbolic identifier text; (b) connect() reports
symbolic names upper-cased; (c) a differential harness over the whole real pipeline: for every statement skeleton the letter
case of each keyword / unquoted identifier token is a symbolic bit, quoted identifiers and string literals are left alone,
and the complete observable outcome (SQL reaching the engine modulo DuckDB's own case-insensitivity, rows, rowcount, status,
error, session context, variables) must equal that of the all-upper-case spelling.
"""
from __future__ import annotations

import snowflake.connector.errors
from sqlglot import exp
from sqlglot.dialects.duckdb import DuckDB
from sqlglot.dialects.snowflake import Snowflake
from sqlglot.tokens import TokenType

import fakesnow.checks as fchecks
import fakesnow.conn as fconn
from fakesnow import transforms
from vf import fast
from vf.duckstub import validate_engine
from vf.registry import REGISTRY, SHARD, done, ob, tier
from vf.session import instance, std_engine

fast.install()

META = {
    "level": "other",
    "explanation": "C02: identifier text is symbolic (any unicode, length-bounded) for the folding transform, identifier equality and connect(); for "
    "the pipeline the case of every re-caseable token of each statement skeleton is a symbolic bit and outcomes are compared differentially.",
    "assumptions": [
        "K7: sqlglot's tokenizer recognises keywords case-insensitively (spot-validated: every skeleton parses in all-lower and all-upper case)",
        "K2: DuckDB treats unquoted identifiers, keywords and function names case-insensitively (emitted SQL is compared modulo the case of such tokens)",
        "the str.upper() of Python is taken as the definition of folding for non-ASCII letters",
    ],
}

L = tier(3, 4)
QUOTE = chr(39)


def validate_contracts():
    out = validate_engine()
    bad = []
    for s in SKELETONS:
        for v in (s.lower(), s.upper()):
            try:
                import sqlglot

                sqlglot.parse_one(_recase(s, None, mode=("lower" if v == s.lower() else "upper")), read="snowflake")
            except Exception as e:  # noqa: BLE001
                bad.append(f"{s!r}: {type(e).__name__}")
    out.append(("K7 every statement skeleton parses in all-lower and all-upper spelling", not bad, "; ".join(bad[:3])))
    return out


# ------------------------------------------------------------------ (a) folding transform, identifier equality
@ob(
    "C02.folding_transform",
    encodes=["fakesnow.transforms.upper_case_unquoted_identifiers"],
    bounds="Identifier(this=s, quoted=q): s any unicode string, |s| <= 3 (quick) / 4 (thorough); q symbolic",
    timeout=(300, 1200),
)
def folding(s: str, q: bool) -> bool:
    """
    pre: len(s) <= L
    post: _
    """
    node = exp.Identifier(this=s, quoted=q)
    out = transforms.upper_case_unquoted_identifiers(node)
    if not isinstance(out, exp.Identifier) or bool(out.args.get("quoted")) != q:
        return done(False)
    return done(out.this == (s if q else s.upper()))


@ob(
    "C02.identifier_equality",
    encodes=["fakesnow.checks.equal"],
    bounds="two identifiers with symbolic text (|s| <= 1/2) and symbolic quoted flags: equal exactly when their folded names are equal",
    timeout=(300, 1200),
)
def ident_equal(a: str, qa: bool, b: str, qb: bool) -> bool:
    """
    pre: len(a) <= L - 2 and len(b) <= L - 2
    post: _
    """
    got = fchecks.equal(exp.Identifier(this=a, quoted=qa), exp.Identifier(this=b, quoted=qb))
    fa = a if qa else a.upper()
    fb = b if qb else b.upper()
    return done(bool(got) == (fa == fb))


class _AnyDuck:
    def __init__(self) -> None:
        self.log = []

    def cursor(self):
        return self

    def execute(self, sql, params=None):
        self.log.append(sql)
        return self

    def fetchone(self):
        return ("exists",)

    def fetchall(self):
        return [(0,)]

    def close(self):
        pass


@ob(
    "C02.connect_reports_upper_case",
    encodes=["fakesnow.conn.FakeSnowflakeConnection.__init__ (name folding, SQL it builds from the names)"],
    bounds="database and schema names: symbolic strings over letters/digits/underscore-like text (any unicode without quotes), |database| <= 2, |schema| <= 1 (quick) / 2 (thorough; "
    "|database| = 3 with |schema| = 2 did not finish in 20 min); the "
    "names reported and the names spliced into the engine SQL are the upper-cased ones; sharded by (|database|, |schema|)",
    timeout=(300, 1200),
    shards=(2, 4),
)
def connect_upper(d: str, s: str) -> bool:
    """
    pre: 1 <= len(d) <= 2 and 1 <= len(s) <= L - 2 and all(ch != QUOTE for ch in d) and all(ch != QUOTE for ch in s)
    pre: SHARD < 0 or (len(d) - 1) * (L - 2) + (len(s) - 1) == SHARD
    post: _
    """
    duck = _AnyDuck()
    conn = fconn.FakeSnowflakeConnection(duck, database=d, schema=s)
    if conn.database != d.upper() or conn.schema != s.upper():
        return done(False)
    want = "SET schema='" + d.upper() + "." + s.upper() + "'"
    return done(any(q == want for q in duck.log) and conn.database_set and conn.schema_set)


# ------------------------------------------------------------------ (c) differential re-casing through the whole pipeline
SKELETONS = [
    "select a, b as x from t1 where a > 1 order by b",
    'select a as "MiXed", b from db1.s1.t1 tt join t2 on tt.a = t2.a',
    "select count(*) as n, max(b) from t1 group by a having count(*) > 0",
    "with q as (select a from t1) select a from q union all select a from t2",
    "insert into t1 (a, b) values (1, 'KeepMe'), (2, null)",
    "insert into s2.t1 select a from t2 where a in (1, 2)",
    "update t1 set b = 'Val' where a is not null",
    "delete from t1 using t2 where t1.a = t2.a",
    "truncate table t2",
    "create table tnew (id int, name varchar(10), ts timestamp_ntz, v variant, f float) comment = 'Some Comment'",
    'create table "Quoted Tbl" ("Col A" int, colb text)',
    "create or replace table t2 as select a from t1",
    "create view vnew as select a from t1 where b like 'x%'",
    "create table if not exists db2.s3.tz clone db1.s1.t1",
    "alter table t1 add column c number(10, 2)",
    "alter table t1 rename to t1_renamed",
    "alter table t1 set comment = 'Hello'",
    "comment on table t1 is 'World'",
    "drop table if exists t2",
    "drop schema s2",
    "create schema db2.newschema",
    "create database newdb",
    "use database db2",
    "use schema s2",
    "use schema db2.s3",
    "merge into t1 using t2 on t1.a = t2.a when matched then delete",
    "merge into t1 using t2 on t1.a = t2.a when matched and t2.a > 1 then update set b = 'M' when not matched then insert (a) values (t2.a)",
    "show tables",
    "show terse objects in schema db1.s1",
    "show schemas in database db1",
    "show primary keys in schema db1.s1",
    "describe table t1",
    "set myvar = 10",
    "select to_decimal(b, 10, 2), try_to_number(b), sha2(b), to_date(b), regexp_substr(b, 'a'), split(b, ','), trim(b) from t1",
    "select identifier('a') from identifier('t1')",
    "select v['Key'], v[0]::varchar, get_path(v, 'a.B'), upper(v['k']), array_size(v) from t1",
    "select parse_json('{\"A\": 1}'), try_parse_json(b), object_construct('K', a), array_agg(a) within group (order by a) from t1",
    "select dateadd(day, 1, a::date), datediff(month, '2020-01-01', b), to_timestamp_ntz(b), equal_null(a, b) from t1",
    "select * from table_a sample (10) seed (3)",
    "select table_name, comment from information_schema.tables where table_schema = 'S1'",
    "select column_name, data_type from db1.information_schema.columns where table_name = 'T1'",
    "select * from (values (1, 'a'), (2, 'b'))",
    "select t.value::varchar from t1, lateral flatten(input => v) t",
    "begin",
    "commit",
    "rollback",
    "create tag cost_center",
    "alter table t1 cluster by (a)",
    "select random(42) as r, a from t1",
]

# fixed-spelling statements executed AFTER the re-cased one: what it left behind must not depend on how it was spelled
FOLLOWUPS = {
    "set myvar = 10": ["SET MYVAR = 20", "select $myvar as v, $MyVar as w from t1", "unset MYVAR"],
    "create table tnew (id int, name varchar(10), ts timestamp_ntz, v variant, f float) comment = 'Some Comment'": ["select ID, NAME from TNEW", "describe table TNEW"],
    'create table "Quoted Tbl" ("Col A" int, colb text)': ['select "Col A", COLB from "Quoted Tbl"'],
    "use schema s2": ["select a from T1"],
    "create schema db2.newschema": ["create table DB2.NEWSCHEMA.T (a int)"],
}

_RECASE_TYPES = None


def _tokens(sql: str):
    return Snowflake().tokenizer.tokenize(sql)


def _recase(sql: str, bits, mode: str = "bits") -> str:
    """Re-spell every keyword / unquoted identifier token; strings, quoted identifiers, numbers and symbols stay."""
    toks = _tokens(sql)
    out = []
    pos = 0
    k = 0
    for t in toks:
        start, end = t.start, t.end + 1
        out.append(sql[pos:start])
        piece = sql[start:end]
        quoted = t.token_type == TokenType.IDENTIFIER or t.token_type in (TokenType.STRING, TokenType.NUMBER, TokenType.HEREDOC_STRING, TokenType.RAW_STRING)
        if quoted or not any(ch.isalpha() for ch in piece) or piece[:1] in ("'", '"', "$"):
            out.append(piece)
        else:
            if mode == "lower":
                out.append(piece.lower())
            elif mode == "upper":
                out.append(piece.upper())
            else:
                b = bits[k] if k < len(bits) else bits[k % len(bits)] ^ ((k // len(bits)) & 1)
                if b == 0:
                    out.append(piece.lower())
                elif b == 1:
                    out.append(piece.upper())
                else:
                    out.append("".join(ch.upper() if i % 2 == 0 else ch.lower() for i, ch in enumerate(piece)))
            k += 1
        pos = end
    out.append(sql[pos:])
    return "".join(out)


def _norm_emitted(sql) -> str:
    """Emitted SQL modulo what DuckDB itself ignores: case of keywords, function names and unquoted identifiers."""
    if not isinstance(sql, str):
        return repr(sql)
    try:
        # a projection repeated verbatim (modulo case) in a CREATE TABLE AS SELECT is renamed by DuckDB and never read again:
        # not an observable difference
        import sqlglot

        tree = sqlglot.parse_one(sql, read="duckdb")
        if isinstance(tree, exp.Create) and isinstance(tree.args.get("expression"), exp.Select):
            sel = tree.args["expression"]
            seen, uniq = set(), []
            for e in sel.expressions:
                key = e.sql(dialect="duckdb").upper()
                if key not in seen:
                    seen.add(key)
                    uniq.append(e)
            sel.set("expressions", uniq)
            sql = tree.sql(dialect="duckdb")
    except Exception:  # noqa: BLE001
        pass
    try:
        toks = DuckDB().tokenizer.tokenize(sql)
    except Exception:  # noqa: BLE001
        return sql
    parts = []
    for t in toks:
        if t.token_type == TokenType.STRING:
            parts.append("'" + t.text + "'")
        elif t.token_type == TokenType.IDENTIFIER:
            parts.append('"' + t.text + '"')
        else:
            parts.append(t.text.upper())
    return " ".join(parts)


def _outcome(sql: str, followups=None):
    from vf.stubs import StubTable

    eng = std_engine()
    eng.add_table("DB1", "S1", "TABLE_A")
    eng.query_result = StubTable(["A", "b c"], [(1, 2), (3, 4)])
    conn = instance(eng).connect(database="db1", schema="s1")
    cur = conn.cursor()
    base = len(eng.log)
    err = None
    rows = rowcount = None
    try:
        cur.execute(sql)
        rows = cur.fetchall()
        rowcount = cur.rowcount
    except snowflake.connector.errors.ProgrammingError as e:
        err = ("ProgrammingError", e.errno, e.sqlstate)
    except (NotImplementedError, AssertionError) as e:
        err = (type(e).__name__, str(e)[:40].upper())
    follow = []
    for fsql in followups or []:
        try:
            c2 = conn.cursor()
            c2.execute(fsql)
            follow.append(("ok", c2.fetchall()))
        except snowflake.connector.errors.ProgrammingError as e:
            follow.append(("ProgrammingError", e.errno))
        except Exception as e:  # noqa: BLE001
            follow.append((type(e).__name__,))
    vs = getattr(conn.variables, "_variables", {})
    return (
        [_norm_emitted(q) for _c, q in eng.log[base:]],
        rows,
        rowcount,
        err,
        cur.sqlstate,
        (conn.database, conn.schema, conn.database_set, conn.schema_set),
        sorted((str(k), str(v).upper()) for k, v in dict(vs).items()),
        eng.user_snapshot(),
        follow,
    )


def _differential(si: int, b0: int, b1: int, b2: int, b3: int, b4: int, b5: int) -> bool:
    sql = SKELETONS[si]
    fu = FOLLOWUPS.get(sql)
    ref = _outcome(_recase(sql, None, mode="upper"), fu)
    var = _outcome(_recase(sql, [b0, b1, b2, b3, b4, b5]), fu)
    return ref == var


@ob(
    "C02.outcome_invariant_under_recasing",
    encodes=["fakesnow.cursor.FakeSnowflakeCursor.execute/_transform/_execute (all transforms)", "fakesnow.transforms_merge.*", "fakesnow.variables.Variables", "fakesnow.checks.*", "fakesnow.expr.key_command"],
    bounds=f"{len(SKELETONS)} statement skeletons (queries, DML, DDL, CLONE, ALTER, COMMENT, USE, MERGE, SHOW, DESCRIBE, SET, rewritten functions, "
    "semi-structured access, information_schema, FLATTEN, transactions, tags, cluster, seeded RANDOM/SAMPLE); the case (lower / upper / "
    "alternating) of each of the first 6 re-caseable tokens is symbolic, later tokens repeat the pattern; compared with the all-upper spelling",
    timeout=(400, 1800),
    stubs=["K1/K2 vf.duckstub.Engine"],
    shards=(16, 16),
)
def recasing(si: int, b0: int, b1: int, b2: int, b3: int, b4: int, b5: int) -> bool:
    """
    pre: 0 <= si < len(SKELETONS) and all(0 <= b <= NB for b in (b0, b1, b2, b3, b4, b5)) and (SHARD < 0 or si % 16 == SHARD)
    pre: NB == 2 or (b4 == b0 and b5 == b1)
    post: _
    """
    P = fast.pick
    return done(fast.native(_differential, P(si, len(SKELETONS)), P(b0, 3), P(b1, 3), P(b2, 3), P(b3, 3), P(b4, 3), P(b5, 3)))


NB = tier(1, 2)


def _real_recasing(a: dict):
    """Replay on the real stack: both spellings on identical fresh sessions with real DuckDB."""
    from fakesnow.instance import FakeSnow

    sql = SKELETONS[a["si"]]
    bits = [a[f"b{i}"] for i in range(6)]

    def run(text):
        fs = FakeSnow()
        conn = fs.connect(database="db1", schema="s1")
        cur = conn.cursor()
        for ddl in (
            "create schema db1.s2", "create database db2", "create schema db2.s1", "create schema db2.s3",
            "create table db1.s1.t1 (a int, b varchar, v variant)", "create table db1.s1.t2 (a int)", "create table db1.s2.t1 (a int)",
            "create table db1.s1.table_a (a int)", "insert into t1 values (1, '1', parse_json('{\"k\": \"x\"}')), (2, '2', null)", "insert into t2 values (1), (3)",
        ):
            cur.execute(ddl)
        follow = []
        try:
            cur.execute(text)
            rows = cur.fetchall()
            if "random" in text.lower() or "sample" in text.lower() or "created_on" in str([d.name for d in cur.description]).lower():
                rows = len(rows)
            first = ("ok", rows, [d.name for d in cur.description], cur.rowcount, conn.database, conn.schema)
        except snowflake.connector.errors.ProgrammingError as e:
            first = ("ProgrammingError", e.errno, e.sqlstate)
        except Exception as e:  # noqa: BLE001
            first = (type(e).__name__,)
        for fsql in FOLLOWUPS.get(sql) or []:
            try:
                follow.append(("ok", conn.cursor().execute(fsql).fetchall()))
            except snowflake.connector.errors.ProgrammingError as e:
                follow.append(("ProgrammingError", e.errno))
            except Exception as e:  # noqa: BLE001
                follow.append((type(e).__name__,))
        return first, follow

    r1 = run(_recase(sql, None, mode="upper"))
    r2 = run(_recase(sql, bits))
    return r1 != r2, f"real stack: upper spelling -> {str(r1)[:150]}; re-cased {_recase(sql, bits)!r} -> {str(r2)[:150]}"


REGISTRY["C02.outcome_invariant_under_recasing"].real_replay = _real_recasing

# ------------------------------------------------------------------ DESCRIBE looks quoted names up exactly as written (shared with C09)
import obligations.C09  # noqa: E402,F401
from vf.registry import alias  # noqa: E402

alias("C02.describe_keeps_quoted_names_and_folds_unquoted_ones", "C09.describe_and_show_scope_literals", "DESCRIBE TABLE / VIEW finds an object under a quoted lower- or mixed-case schema or table name exactly as written, and under the upper-cased name when unquoted")

import obligations.C04  # noqa: E402,F401

alias("C02.status_messages_and_context_use_the_folded_name", "C04.ddl_status_names_object", "the object name in CREATE / DROP status messages - and hence the name compared with the session's current schema on DROP - is the folded name, also when it is spelled through IDENTIFIER('...')")
