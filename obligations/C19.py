"""C19 - concurrent sessions behave as if their statements ran one at a time.

No threads are run under the solver.  Statement-level interleavings are C13/C03 (each statement runs to completion on its
caller's thread and is routed to its own DuckDB connection).  Here the STEP-level interleavings inside connect() and inside a
statement are decided by rely/guarantee interference (E1): before a symbolic engine-call boundary the stub applies one effect
that another session running fakesnow could have committed (attach the database, create the schema, create / drop a table);
the real code must then finish as some serial order would.  What DuckDB does with truly parallel calls (K3) is not claimed.
"""
from __future__ import annotations

import duckdb
import snowflake.connector.errors

from vf import fast
from vf.duckstub import validate_engine
from vf.registry import REGISTRY, SHARD, done, ob
from vf.session import instance, std_engine

fast.install()

META = {
    "level": "model_checking",
    "explanation": "C19: the position of ONE interfering commit of another session among the engine calls of connect() / of a statement, and which "
    "effect it is, are symbolic; the real code runs against the catalog stand-in and must end in a state some serial order produces, without an "
    "error no serial order produces.",
    "assumptions": [
        "K3: DuckDB serialises the individual engine calls of different connections; internal thread safety of DuckDB, lost updates inside DuckDB and "
        "free-running multi-threaded stress are outside the claim (not a solver technique)",
        "guarantee set: another fakesnow session can commit ATTACH <db> (+ bootstrap), CREATE SCHEMA, CREATE/DROP TABLE, DML between any two engine calls",
        "known findings carved out: the check-then-ATTACH and check-then-CREATE SCHEMA windows of connect(); multi-call statements observed half-done",
    ],
}


def validate_contracts():
    return validate_engine()


EFFECTS = ["attach_db", "create_schema", "create_table", "drop_table", "none"]


def _apply(eng, effect: str) -> None:
    if effect == "attach_db":
        if not eng.has_db("DB1"):
            # exactly what another fakesnow session's connect commits: ATTACH + metadata bootstrap (its own SQL, on its own connection)
            import fakesnow.info_schema as finfo
            import fakesnow.macros as fmac

            hooks, eng.hooks = eng.hooks, []
            try:
                other = eng.connect()
                other.execute("ATTACH DATABASE ':memory:' AS DB1")
                other.execute(finfo.creation_sql("DB1"))
                other.execute(fmac.creation_sql("DB1"))
            finally:
                eng.hooks = hooks
    elif effect == "create_schema":
        if eng.has_db("DB1") and not eng.has_schema("DB1", "S1"):
            eng.add_schema("DB1", "S1")
    elif effect == "create_table":
        if eng.has_schema("DB1", "S1") and "OTHER" not in eng.dbs["DB1"]["schemas"].get("S1", {}):
            eng.add_table("DB1", "S1", "OTHER")
    elif effect == "drop_table":
        if eng.has_schema("DB2", "S2"):
            eng.dbs["DB2"]["schemas"]["S2"].pop("KEEP", None)


def _connect_with_interference(k: int, ei: int, db_exists: bool, sc_exists: bool):
    """connect(database='db1', schema='s1') with effect EFFECTS[ei] committed by another session right before engine call k."""
    from vf.duckstub import Engine

    eng = Engine()
    fs = instance(eng)
    eng.add_db("DB2")
    eng.add_schema("DB2", "S2")
    eng.add_table("DB2", "S2", "KEEP")
    if db_exists:
        eng.add_db("DB1")
        if sc_exists:
            eng.add_schema("DB1", "S1")
    seen = {"n": 0, "sql": None}
    effect = EFFECTS[ei]

    def hook(stub, q):
        if seen["n"] == k:
            seen["sql"] = q
            _apply(eng, effect)
        seen["n"] += 1

    eng.hooks.append(hook)
    err = None
    conn = None
    try:
        conn = fs.connect(database="db1", schema="s1")
    except duckdb.Error as e:
        err = e
    eng.hooks.remove(hook)
    return eng, conn, err, seen


def _known_window(seen, effect: str, err) -> bool:
    """The two listed race windows: the other session attaches the database between the existence check and ATTACH, or creates the
    schema between the existence check and CREATE SCHEMA."""
    q = str(seen["sql"] or "").upper()
    if effect == "attach_db" and "ATTACH DATABASE" in q and "DB1" in q:
        return True
    if effect == "create_schema" and q.strip().startswith("CREATE SCHEMA"):
        return True
    return False


def _connect_race(k: int, ei: int, db_exists: bool, sc_exists: bool) -> bool:
    eng, conn, err, seen = _connect_with_interference(k, ei, db_exists, sc_exists)
    effect = EFFECTS[ei]
    if seen["sql"] is None:
        return True  # fewer than k+1 engine calls: nothing interfered
    if err is not None:
        return _known_window(seen, effect, err)
    # success: the session must be set on DB1.S1, which now exist, exactly as after either serial order
    if not (conn.database == "DB1" and conn.schema == "S1" and conn.database_set and conn.schema_set):
        return False
    if conn._duck_conn.setting != ("DB1", "S1") or not eng.has_schema("DB1", "S1"):
        return False
    # the other session's effect survived, and nothing else changed
    if effect == "create_table" and eng.has_schema("DB1", "S1") and False:
        return False
    if effect != "drop_table" and "KEEP" not in eng.dbs["DB2"]["schemas"]["S2"]:
        return False
    return True


@ob(
    "C19.connect_under_one_interference",
    encodes=["fakesnow.conn.FakeSnowflakeConnection.__init__ (check-then-act ladder)", "fakesnow.instance.FakeSnow.connect", "fakesnow.info_schema.creation_sql", "fakesnow.macros.creation_sql"],
    bounds="connect(database='db1', schema='s1') with auto-create on; database / schema pre-existing or not; ONE effect of another session (attach the "
    "same database, create the same schema, create a table, drop an unrelated table, nothing) committed right before engine call k = 0..11 of connect",
    timeout=(300, 600),
    stubs=["K2 vf.duckstub.Engine with an interference hook"],
    carve="C19-connect-check-then-create-race",
)
def connect_race(k: int, ei: int, db_exists: bool, sc_exists: bool) -> bool:
    """
    pre: 0 <= k <= 11 and 0 <= ei < len(EFFECTS) and (db_exists or not sc_exists)
    post: _
    """
    return done(fast.native(_connect_race, fast.pick(k, 12), fast.pick(ei, len(EFFECTS)), bool(fast.pick(db_exists, 2)), bool(fast.pick(sc_exists, 2))))


STATEMENTS = [
    "merge into t1 using t2 on t1.a = t2.a when matched then delete when not matched then insert (a) values (t2.a)",
    "insert into t1 (a) values (1)",
    "create table tnew (a int)",
    "create table if not exists other (a int)",
    "drop table if exists other",
    "select a from t1",
    "use schema s2",
    "create schema if not exists snew",
    "describe table t1",
    "show tables",
]
ST_EFFECTS = ["create_table", "drop_other", "create_schema_snew", "none", "other_session_merge", "other_session_temp_table"]


def _stmt_race(si: int, k: int, ei: int) -> bool:
    eng = std_engine()
    fs = instance(eng)
    conn = fs.connect(database="db1", schema="s1")
    other = fs.connect(database="db1", schema="s1")
    seen = {"n": 0, "hit": False}
    effect = ST_EFFECTS[ei]

    def hook(stub, q):
        if seen["n"] == k:
            seen["hit"] = True
            if effect == "create_table":
                eng.dbs["DB1"]["schemas"]["S1"].setdefault("OTHER", __import__("vf.duckstub", fromlist=["Tbl"]).Tbl([("A", "BIGINT")]))
            elif effect == "drop_other":
                eng.dbs["DB1"]["schemas"]["S2"].pop("T1", None)
            elif effect in ("other_session_merge", "other_session_temp_table"):
                # a whole statement of ANOTHER fakesnow session (same database and schema) commits here
                hooks, eng.hooks = eng.hooks, []
                try:
                    oc = other.cursor()
                    if effect == "other_session_merge":
                        oc.execute("merge into t2 using t1 on t2.a = t1.a when matched then update set a = t1.a")
                    else:
                        oc.execute("create or replace temporary table merge_candidates (z int)")
                finally:
                    eng.hooks = hooks
            elif effect == "create_schema_snew":
                eng.dbs["DB1"]["schemas"].setdefault("SNEW", {})
        seen["n"] += 1

    eng.hooks.append(hook)
    cur = conn.cursor()
    try:
        cur.execute(STATEMENTS[si])
    except snowflake.connector.errors.ProgrammingError:
        return False  # none of these statements can fail in any serial order with these effects
    if not seen["hit"]:
        return True
    # helper objects a multi-step statement creates for itself are never another session's (nor visible to it)
    me = conn._duck_conn
    for name, obj in me.read_objs:
        if name == "MERGE_CANDIDATES" and obj.owner != me.id:
            return False
    for name, obj in other._duck_conn.read_objs:
        if name == "MERGE_CANDIDATES" and obj.owner != other._duck_conn.id:
            return False
    # the session context never moves because of another session's commit
    want = ("DB1", "S2") if STATEMENTS[si].startswith("use schema") else ("DB1", "S1")
    return (conn.database, conn.schema) == want and conn._duck_conn.setting == want


@ob(
    "C19.statement_under_one_interference",
    encodes=["fakesnow.cursor.FakeSnowflakeCursor.execute/_execute"],
    bounds="10 statements whose outcome does not depend on the other session's effect (MERGE, DML, DDL with IF [NOT] EXISTS, query, USE, DESCRIBE, "
    "SHOW) x ONE effect of another session on the same database and schema (create a table, drop an unrelated table, create a schema, a whole MERGE, "
    "a temporary table named like MERGE's helper, nothing) committed right before engine call k = 0..7: the statement succeeds, the session context "
    "is its own, and every helper object a multi-step statement reads was created by its own session",
    timeout=(300, 600),
    stubs=["K2 vf.duckstub.Engine with an interference hook"],
)
def stmt_race(si: int, k: int, ei: int) -> bool:
    """
    pre: 0 <= si < len(STATEMENTS) and 0 <= k <= 7 and 0 <= ei < len(ST_EFFECTS)
    post: _
    """
    return done(fast.native(_stmt_race, fast.pick(si, len(STATEMENTS)), fast.pick(k, 8), fast.pick(ei, len(ST_EFFECTS))))


# ------------------------------------------------------------------ no state left by one session's statement changes what another session's statement does
EARLIER = [
    [],
    ["comment on table t1 is 'v1'", "alter table t1 set comment = 'v2'"],
    ["alter table t1 set comment = 'v1'", "comment on table t1 is 'v2'"],
    ["create table tz (a varchar(3)) comment = 'z'"],
    ["set shared_name = 1"],
]
LATER = ["set batch = 7", "alter table t1 cluster by (a)", "create tag t", "select a from t1", "unset shared_name", "select $shared_name as x from t1"]


def _warm_up() -> None:
    """Process-level state (module globals of fakesnow) outlives sessions and instances.  Every path first lets throw-away sessions of
    another instance run all the prefixes, so that whatever such state they leave is present in every path - also in the replay, which
    runs in a fresh process."""
    for pre in EARLIER:
        e0 = std_engine()
        c0 = instance(e0).connect(database="db1", schema="s1")
        for q in pre:
            try:
                c0.cursor().execute(q)
            except snowflake.connector.errors.ProgrammingError:
                pass


def _cross_session(ei: int, li: int, has_schema: bool) -> bool:
    _warm_up()
    eng = std_engine()
    fs = instance(eng)
    A = fs.connect(database="db1", schema="s1")
    for q in EARLIER[ei]:
        A.cursor().execute(q)
    B = fs.connect(database="db1", schema="s2") if has_schema else fs.connect(database="db1")
    base = len(eng.log)
    err = None
    try:
        B.cursor().execute(LATER[li])
    except snowflake.connector.errors.ProgrammingError as e:
        err = e
    # variables are per session: B never sees A's
    if "shared_name" in LATER[li]:
        if LATER[li].startswith("select"):
            if err is None or "Session variable" not in (err.msg or ""):
                return False
        return True
    if err is not None and not (not has_schema and err.errno == 90106):
        return False
    for _c, q in eng.log[base:]:
        if isinstance(q, str) and "_fs_" in q.lower() and q.lstrip().upper().startswith(("INSERT", "UPDATE", "DELETE")):
            return False  # B's statement re-applied something A declared
    return True


@ob(
    "C19.no_state_leaks_between_sessions",
    encodes=["fakesnow.cursor.FakeSnowflakeCursor.execute/_transform/_execute", "fakesnow.transforms (module-level shared expressions)", "fakesnow.variables.Variables"],
    bounds="session A ran one of 5 statement prefixes (comments declared in two orders, CREATE TABLE with metadata, SET of a variable); then session B (same "
    "database, own schema or no schema) runs one of 6 statements (SET, CLUSTER BY no-op, CREATE TAG, SELECT, UNSET / use of A's variable): B's "
    "statement writes no metadata, fails only for its own reasons, and A's variables do not exist for it",
    timeout=(200, 400),
    stubs=["K1/K2 vf.duckstub.Engine"],
)
def cross_session(ei: int, li: int, has_schema: bool) -> bool:
    """
    pre: 0 <= ei < len(EARLIER) and 0 <= li < len(LATER)
    post: _
    """
    return done(fast.native(_cross_session, fast.pick(ei, len(EARLIER)), fast.pick(li, len(LATER)), bool(fast.pick(has_schema, 2))))


# ------------------------------------------------------------------ a COMMIT the engine refuses is never reported as success
CONFLICTS = [
    "TransactionContext Error: Failed to commit: Transaction conflict: adding entries to a table that has been altered!",
    "TransactionContext Error: Failed to commit: PRIMARY KEY or UNIQUE constraint violated: duplicate key \"7\"",
    "TransactionContext Error: Failed to commit: write-write conflict on key",
]
COMMIT_FORMS = ["commit", "COMMIT", "conn.commit", "execute_string"]


def _refused_commit(ci: int, fi: int, writes: int) -> bool:
    eng = std_engine()
    fs = instance(eng)
    A = fs.connect(database="db1", schema="s1")
    B = fs.connect(database="db1", schema="s1")
    a1, a2 = A.cursor(), A.cursor()
    a1.execute("begin")
    for k in range(writes):
        a2.execute(f"insert into t2 values ({k})")

    def hook(stub, sql):
        if isinstance(sql, str) and sql.strip().upper().startswith("COMMIT") and stub.in_tx:
            # DuckDB: a failed COMMIT rolls the transaction back
            stub.in_tx = False
            raise duckdb.TransactionException(CONFLICTS[ci])

    eng.hooks.append(hook)
    raised = None
    rows = None
    form = COMMIT_FORMS[fi]
    try:
        if form == "conn.commit":
            A.commit()
        elif form == "execute_string":
            rows = [c.fetchall() for c in A.execute_string("commit;")]
        else:
            rows = a2.execute(form).fetchall()
    except Exception as e:  # noqa: BLE001
        raised = e
    eng.hooks.remove(hook)
    if raised is None:
        return False  # the session was told its work is committed while the engine discarded it: rows silently lost
    del rows
    # both sessions keep working afterwards
    try:
        a1.execute("select a from t2").fetchall()
        B.cursor().execute("insert into t2 values (9)")
        a1.execute("rollback")
    except Exception:  # noqa: BLE001
        return False
    return True


@ob(
    "C19.refused_commit_is_reported",
    encodes=["fakesnow.cursor.FakeSnowflakeCursor._execute (TransactionException handling)", "fakesnow.conn.FakeSnowflakeConnection.commit/execute_string"],
    bounds="session A inside a transaction with 0..2 writes, another session alive; A's COMMIT (lower / upper case statement, conn.commit(), execute_string) is "
    "refused by the engine with one of 3 conflict messages (table altered, PRIMARY KEY violated by a concurrent insert, write-write conflict): the caller "
    "gets an exception, never the success status; both sessions stay usable",
    timeout=(120, 300),
    stubs=["K3 vf.duckstub.Engine with a fault hook at COMMIT (a failed COMMIT rolls back)"],
)
def refused_commit(ci: int, fi: int, writes: int) -> bool:
    """
    pre: 0 <= ci < len(CONFLICTS) and 0 <= fi < len(COMMIT_FORMS) and 0 <= writes <= 2
    post: _
    """
    return done(fast.native(_refused_commit, fast.pick(ci, len(CONFLICTS)), fast.pick(fi, len(COMMIT_FORMS)), fast.pick(writes, 3)))


def _real_refused_commit(a: dict):
    """Real DuckDB: two open transactions insert the same PRIMARY KEY value; the second COMMIT must not be reported as success."""
    from fakesnow.instance import FakeSnow

    fs = FakeSnow()
    A = fs.connect(database="db1", schema="s1")
    B = fs.connect(database="db1", schema="s1")
    A.cursor().execute("create table pk (id int primary key, v varchar)")
    ca, cb = A.cursor(), B.cursor()
    ca.execute("begin")
    cb.execute("begin")
    ca.execute("insert into pk values (7, 'a')")
    cb.execute("insert into pk values (7, 'b')")
    cb.execute("commit")
    form = COMMIT_FORMS[a["fi"]]
    try:
        if form == "conn.commit":
            A.commit()
        elif form == "execute_string":
            list(A.execute_string("commit;"))
        else:
            ca.execute(form)
        raised = None
    except Exception as e:  # noqa: BLE001
        raised = e
    rows = B.cursor().execute("select id, v from pk").fetchall()
    bad = raised is None and (7, "a") not in rows
    return bad, f"real stack: second COMMIT {'raised ' + type(raised).__name__ if raised else 'reported success'}; table holds {rows}"


REGISTRY["C19.refused_commit_is_reported"].real_replay = _real_refused_commit


# ------------------------------------------------------------------ statements that are ONE engine call cannot be torn by another session (shared with C18)
import obligations.C18  # noqa: E402,F401
from vf.registry import alias  # noqa: E402

alias("C19.one_call_statements_stay_one_call", "C18.single_call_statements_are_all_or_nothing", "K3 serialises engine calls, so a statement that changes state through exactly one call has no window in which another session's statement can slip in; the 20 statement kinds that are one call today must stay one call (a second, later call - e.g. bookkeeping keyed by name after a DROP - can hit what another session created in between)")


# ------------------------------------------------------------------ independence of what happened before (shared harness)
import obligations.shared_independence as _indep  # noqa: E402

_IND_PRIORS = (11,)


@ob(
    "C19.another_sessions_activity_does_not_matter",
    encodes=["fakesnow.cursor.FakeSnowflakeCursor.execute/_transform/_execute/description/fetch*", "fakesnow.conn / fakesnow.variables / fakesnow.transforms (any state kept between statements)"],
    bounds="prior activity: comment, SET, failing statement, USE and BEGIN executed by another session of the instance; then one of " + str(len(_indep.SUBJECTS)) + " statements (queries, DML, DDL with metadata, COMMENT, "
    "DESCRIBE, SHOW, USE, SET, MERGE, seeded RANDOM, BEGIN, a nop_regexes match, two failing statements, TRUNCATE) on the same or another cursor, tuple or "
    "dict: SQL reaching the engine, rows, rowcount, description names, error, sqlstate, session context and the statement's own effect on catalog, "
    "metadata and variables equal those on a fresh identical session",
    timeout=(300, 600),
    stubs=["K1/K2/K6 vf.duckstub.Engine"],
    shards=(11, 11),
)
def independence(si: int, pk: int, as_dict: bool, same_cursor: bool) -> bool:
    """
    pre: 0 <= si < len(_indep.SUBJECTS) and 0 <= pk < len(_IND_PRIORS) and (SHARD < 0 or si % 11 == SHARD)
    post: _
    """
    from vf import fast as _f

    return done(_f.native(_indep.independent, _f.pick(si, len(_indep.SUBJECTS)), _IND_PRIORS[_f.pick(pk, len(_IND_PRIORS))], bool(_f.pick(as_dict, 2)), bool(_f.pick(same_cursor, 2))))
