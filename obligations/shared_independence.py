"""Shared harness: what a statement does must not depend on unrelated things that happened before it.

Several properties say this from different angles - a failed statement changes nothing (C07), a no-op'd statement has no
effect (C16), metadata is what was most recently declared for THAT object (C09), variables are per connection (C15), sessions
do not disturb each other (C19, C03), description follows the statement just executed (C06).  The harness runs, through the
real execute path against the stub engine, a *prior* activity followed by a statement S, and compares everything observable
about S (the SQL reaching the engine, rows, rowcount, error, sqlstate, description names, what it changed in the catalog and in
the session) with running S on a fresh, identical session.  Priors are chosen so that Snowflake semantics make S independent
of them; which prior and which S are symbolic choices.  Leftover state of any kind - caches keyed by statement text, shared
mutable expression objects, flags that are not reset, moved resets - shows up as a difference.
"""
from __future__ import annotations

import snowflake.connector.errors
from snowflake.connector.cursor import DictCursor, SnowflakeCursor

from vf.session import instance, std_engine
from vf.stubs import StubTable

# statements S (each must be independent of every prior below)
SUBJECTS = [
    "select a, b from t1 where a > 1",
    "insert into t1 (a, b) values (1, 'x')",
    "update t1 set b = 'y' where a = 1",
    "delete from t1 where a = 2",
    "create table tnew (id int, name varchar(10)) comment = 'fresh'",
    "create or replace table t2 (z varchar(4))",
    "alter table t1 add column extra varchar(6)",
    "comment on table t1 is 'subject comment'",
    "drop table t2",
    "describe table t1",
    "show tables in schema db1.s1",
    "show schemas",
    "use schema s2",
    "set subj = 3",
    "alter table t1 cluster by (a)",
    "merge into t1 using t2 on t1.a = t2.a when matched then delete",
    "select random(7) as r from t1",
    "begin",
    "call some_proc()",  # matches the configured nop_regexes
    "select a from nosuch",  # fails: unknown table
    "select $subj2 as v from t1",  # fails: undefined variable
    "truncate table t2",
]

# priors: (label, statements run on the SAME connection first [, on another connection of the instance])
PRIORS = [
    ("nothing", [], []),
    ("a failed statement (unknown table)", ["select a from nosuch_prior"], []),
    ("a failed statement (undefined variable)", ["select $nosuch_var from t1"], []),
    ("a failed DDL (already exists)", ["create table t1 (a int)"], []),
    ("a no-op'd statement", ["call other_proc(1)"], []),
    ("tag / cluster no-ops", ["alter table db1.s2.t1 cluster by (a)", "create tag prior_tag"], []),
    ("comments on another table, two ways", ["comment on table db1.s2.t1 is 'p1'", "alter table db1.s2.t1 set comment = 'p2'"], []),
    ("comments on another table, other order", ["alter table db1.s2.t1 set comment = 'p1'", "comment on table db1.s2.t1 is 'p2'"], []),
    ("CREATE TABLE with metadata elsewhere", ["create table db2.s3.pmeta (c varchar(3)) comment = 'pm'"], []),
    ("an unrelated variable", ["set prior_var = 'pv'"], []),
    ("a read-only query and its description", ["select a from db1.s2.t1"], []),
    ("the same activity by ANOTHER session", [], ["comment on table db1.s2.t1 is 'o1'", "set subj2 = 9", "select a from nosuch_other", "use schema db2.s3", "begin"]),
    ("a rolled-back transaction", ["begin", "insert into db1.s2.t1 (a) values (5)", "rollback"], []),
    ("a committed transaction", ["begin", "insert into db1.s2.t1 (a) values (5)", "commit"], []),
]


def _observe(si: int, pi: int, as_dict: bool, same_cursor: bool, fresh: bool):
    from obligations.C02 import _norm_emitted  # imported late: C02 registers obligations of modules that import this one

    sql = SUBJECTS[si]
    label, own, other = PRIORS[pi]
    eng = std_engine()
    eng.query_result = StubTable(["A", "b c"], [(1, 2), (3, 4)])
    fs = instance(eng, nop_regexes=[r"^call\s"])
    conn = fs.connect(database="db1", schema="s1")
    cls = DictCursor if as_dict else SnowflakeCursor
    cur = conn.cursor(cls)
    if not fresh:
        if other:
            oconn = fs.connect(database="db1", schema="s1")
            for q in other:
                try:
                    oconn.cursor().execute(q)
                except snowflake.connector.errors.ProgrammingError:
                    pass
        for q in own:
            c = cur if same_cursor else conn.cursor(cls)
            try:
                c.execute(q)
                c.fetchall()
                c.description  # noqa: B018
            except snowflake.connector.errors.ProgrammingError:
                pass
    snap0 = eng.user_snapshot()
    sess0 = (conn.database, conn.schema, conn.database_set, conn.schema_set)
    vars0 = dict(getattr(conn.variables, "_variables", {}) or {})
    base = len(eng.log)
    err = rows = rowcount = names = None
    try:
        cur.execute(sql)
        rows = cur.fetchall()
        rowcount = cur.rowcount
        names = [d.name for d in cur.description]
        again = cur.fetchall()
        if again != []:
            rows = ("not exhausted", rows, again)
    except snowflake.connector.errors.ProgrammingError as e:
        err = ("ProgrammingError", e.errno, e.sqlstate)
    mine = [q for _cid, q in eng.log[base:]]
    snap1 = eng.user_snapshot()
    vars1 = dict(getattr(conn.variables, "_variables", {}) or {})
    return (
        [_norm_emitted(q) for q in mine],
        rows,
        rowcount,
        names,
        err,
        cur.sqlstate,
        (conn.database, conn.schema, conn.database_set, conn.schema_set) if sess0 else None,
        # what S changed: catalog delta and variable delta (the prior's own effects cancel out)
        _delta(snap0, snap1),
        sorted((k, v) for k, v in vars1.items() if vars0.get(k) != v),
        sorted(k for k in vars0 if k not in vars1),
    )


def _delta(a, b):
    def flat(s):
        out = set()
        for d, f, schemas in s[0]:
            for sc, objs in schemas:
                out.add((d, sc, None))
                for o in objs:
                    out.add((d, sc, o))
        return out

    fa, fb = flat(a), flat(b)
    return (sorted(map(str, fb - fa)), sorted(map(str, fa - fb)), [(w[1], w[2], w[3]) for w in b[1][len(a[1]) :]])


def independent(si: int, pi: int, as_dict: bool, same_cursor: bool) -> bool:
    return _observe(si, pi, as_dict, same_cursor, fresh=False) == _observe(si, 0, as_dict, same_cursor, fresh=True)
