"""C09 - metadata views always describe exactly the current user objects.

What DuckDB's own catalog relations contain is K2 (trusted).  fakesnow owns (i) the CASE expressions that translate DuckDB's
type vocabulary into Snowflake's in three places (the _fs_columns_snowflake view, the DESCRIBE TABLE query, describe_as_rowtype),
(ii) the filters / scope predicates of the SHOW and DESCRIBE queries, (iii) the bookkeeping of what DuckDB cannot store
(comments, VARCHAR lengths).  (i) and (ii) are decided by SMT over z3 strings on the SQL text the real code holds / emits
(E3 scalar), (iii) by CrossHair over the real transforms and the real execute path against the stub engine.
"""
from __future__ import annotations

import sqlglot
import z3
from sqlglot import exp

import fakesnow.info_schema as finfo
import fakesnow.types as ftypes
from fakesnow import transforms
from obligations.C11 import emitted
from vf import fast
from vf import strsql as Q
from vf.duckstub import validate_engine
from vf.registry import REGISTRY, SHARD, SmtResult, done, ob, tier
from vf.session import instance, std_engine
from vf.smt import check

fast.install()

META = {
    "level": "translation_validation",
    "explanation": "C09: the SQL text of the metadata view, of the DESCRIBE TABLE query and of the SHOW queries (as held / emitted by the real code on this "
    "run) is evaluated over symbolic catalog rows (z3 strings and integers, three-valued logic) and compared with the Snowflake vocabulary and "
    "with describe_as_rowtype; bookkeeping of comments and VARCHAR lengths is driven through the real transforms / execute with symbolic lengths "
    "and symbolic choices of statement and qualification.",
    "assumptions": [
        "K2: DuckDB's information_schema.columns reports data_type as the DuckDB type name, numeric_precision/scale (p, s) for DECIMAL(p,s), and lists "
        "every object of every attached database; duckdb_constraints / information_schema.tables contents are DuckDB's",
        "known findings carved out: fakesnow's own users table is listed by SHOW TABLES/OBJECTS; user queries on information_schema.tables see "
        "internal and foreign-database tables; SHOW without a scope is account-wide; metadata rows outlive DROP / RENAME; lengths recorded in the "
        "current database's side table for tables of another database",
    ],
}


def validate_contracts():
    return validate_engine() + _validate_k2_columns()


def _validate_k2_columns() -> list:
    """K2: what real DuckDB reports in information_schema.columns for each column type fakesnow creates."""
    from vf.real import real_cursor

    fs, conn, cur = real_cursor(False)
    cur.execute("create table tk (a int, b number(10,2), c float, d varchar(7), e boolean, f date, g time, h timestamp_ntz, i timestamp_tz, j binary, k variant)")
    rows = conn._duck_conn.execute(
        "select column_name, data_type, numeric_precision, numeric_scale from db1.information_schema.columns where table_name = 'TK' order by ordinal_position"
    ).fetchall()
    got = {r[0]: r[1:] for r in rows}
    want = {c: (t, K2_NUMERIC.get(t.split("(")[0], (None, None))[0] if not t.startswith("DECIMAL") else 10, K2_NUMERIC.get(t.split("(")[0], (None, None))[1] if not t.startswith("DECIMAL") else 2) for c, t in zip("ABCDEFGHIJK", ["BIGINT", "DECIMAL(10,2)", "DOUBLE", "VARCHAR", "BOOLEAN", "DATE", "TIME", "TIMESTAMP", "TIMESTAMP WITH TIME ZONE", "BLOB", "JSON"])}
    ok = got == want
    return [("K2 information_schema.columns data_type / numeric_precision / numeric_scale per column type", ok, "" if ok else f"{got} vs {want}")]


# DuckDB's numeric_precision / numeric_scale per plain type (K2)
K2_NUMERIC = {"BIGINT": (64, 0), "DOUBLE": (53, 0)}
# DuckDB type tag -> (Snowflake data_type in information_schema.columns, DESCRIBE TABLE type text, rowtype type)
VOCAB = {
    "BIGINT": ("NUMBER", "NUMBER(38,0)", "FIXED"),
    "DECIMAL": ("NUMBER", None, "FIXED"),
    "DOUBLE": ("FLOAT", "FLOAT", "REAL"),
    "VARCHAR": ("TEXT", None, "TEXT"),
    "BOOLEAN": ("BOOLEAN", "BOOLEAN", "BOOLEAN"),
    "DATE": ("DATE", "DATE", "DATE"),
    "TIME": ("TIME", "TIME(9)", "TIME"),
    "TIMESTAMP": ("TIMESTAMP_NTZ", "TIMESTAMP_NTZ(9)", "TIMESTAMP_NTZ"),
    "TIMESTAMP WITH TIME ZONE": ("TIMESTAMP_TZ", "TIMESTAMP_TZ(9)", "TIMESTAMP_TZ"),
    "BLOB": ("BINARY", "BINARY(8388608)", "BINARY"),
    "JSON": ("VARIANT", "VARIANT", "VARIANT"),
}


def _view_projections() -> dict:
    sql = finfo.SQL_CREATE_INFORMATION_SCHEMA_COLUMNS_VIEW.substitute(catalog="DB1")
    tree = sqlglot.parse_one(sql, read="duckdb")
    sel = tree.find(exp.Select)
    return {p.alias_or_name.upper(): p for p in sel.expressions}


def _describe_projections() -> dict:
    sql = transforms.SQL_DESCRIBE_TABLE.substitute(catalog="DB1", schema="S1", table="T")
    tree = sqlglot.parse_one(sql, read="duckdb")
    return {p.alias_or_name.upper(): p for p in tree.expressions}


@ob(
    "C09.three_type_vocabularies_agree",
    kind="smt",
    encodes=["fakesnow.info_schema.SQL_CREATE_INFORMATION_SCHEMA_COLUMNS_VIEW (CASE expressions)", "fakesnow.transforms.SQL_DESCRIBE_TABLE (CASE expression)", "fakesnow.types.describe_as_rowtype"],
    bounds="11 DuckDB column types (every type fakesnow creates columns with); for DECIMAL symbolic 1 <= p <= 38, 0 <= s <= p; for VARCHAR a symbolic "
    "declared length 1..16777216 or none: information_schema.columns.data_type / numeric_precision / numeric_scale / character_maximum_length, the "
    "DESCRIBE TABLE type text and describe_as_rowtype denote the same Snowflake type",
    timeout=(300, 900),
)
def type_vocabularies() -> SmtResult:
    try:
        view = _view_projections()
        desc = _describe_projections()
    except Exception as e:  # noqa: BLE001
        return SmtResult("inconclusive", detail=f"could not parse the view / describe SQL: {e}")
    queries, secs, samples = 0, 0.0, []
    p, s = z3.Int("p"), z3.Int("s")
    ln, ln_null = z3.Int("len"), z3.Bool("len_null")
    for tag, (sf_name, sf_desc, sf_row) in VOCAB.items():
        if tag == "DECIMAL":
            dt = z3.Concat(z3.StringVal("DECIMAL("), z3.IntToStr(p), z3.StringVal(","), z3.IntToStr(s), z3.StringVal(")"))
            prec, scale = Q.SV("int", Q.F, p), Q.SV("int", Q.F, s)
        else:
            dt = z3.StringVal(tag)
            kp = K2_NUMERIC.get(tag)
            prec = Q.i_const(kp[0]) if kp else Q.SV("int", Q.T, z3.IntVal(0))
            scale = Q.i_const(kp[1]) if kp else Q.SV("int", Q.T, z3.IntVal(0))
        row = {
            "DATA_TYPE": Q.SV("str", Q.F, dt),
            "NUMERIC_PRECISION": prec,
            "NUMERIC_SCALE": scale,
            "NUMERIC_PRECISION_RADIX": Q.i_const(10 if tag == "DECIMAL" else 2) if (tag in K2_NUMERIC or tag == "DECIMAL") else Q.SV("int", Q.T, z3.IntVal(0)),
            "EXT_CHARACTER_MAXIMUM_LENGTH": Q.SV("int", ln_null, ln),
            "EXT_CHARACTER_OCTET_LENGTH": Q.SV("int", ln_null, z3.If(ln * 4 < 16777216, ln * 4, 16777216)),
        }
        try:
            v_type = Q.ev(view["DATA_TYPE"], row)
            v_prec = Q.ev(view["NUMERIC_PRECISION"], row)
            v_scale = Q.ev(view["NUMERIC_SCALE"], row)
            v_len = Q.ev(view["CHARACTER_MAXIMUM_LENGTH"], row)
            row2 = {"DATA_TYPE": v_type, "NUMERIC_PRECISION": v_prec, "NUMERIC_SCALE": v_scale, "CHARACTER_MAXIMUM_LENGTH": v_len}
            d_type = Q.ev(desc["TYPE"], row2)
        except Q.Unsupported as e:
            return SmtResult("inconclusive", queries=queries, solver_s=secs, detail=f"{tag}: {e}")
        # describe_as_rowtype on what DESCRIBE <select *> reports for the column (concrete per tag; DECIMAL with a representative (p, s))
        rt = ftypes.describe_as_rowtype([("C", "DECIMAL(17,5)" if tag == "DECIMAL" else tag, "YES", None, None, None)])[0]
        if rt["type"].upper() != sf_row:
            return SmtResult("counterexample", queries=queries, solver_s=secs, detail=f"{tag}: rowtype says {rt['type']}, expected {sf_row}", model={"tag": tag}, programs=queries)
        good = [z3.Not(v_type.null), v_type.val == z3.StringVal(sf_name)]
        if tag == "DECIMAL":
            good += [z3.Not(v_prec.null), v_prec.val == p, z3.Not(v_scale.null), v_scale.val == s]
            good += [d_type.val == z3.Concat(z3.StringVal("NUMBER("), z3.IntToStr(p), z3.StringVal(","), z3.IntToStr(s), z3.StringVal(")"))]
            if (rt["precision"], rt["scale"]) != (17, 5):
                return SmtResult("counterexample", detail="rowtype precision/scale of DECIMAL(17,5)", model={"tag": tag}, programs=queries)
        elif tag == "BIGINT":
            good += [v_prec.val == 38, v_scale.val == 0, z3.Not(v_prec.null), d_type.val == z3.StringVal(sf_desc)]
            if (rt["precision"], rt["scale"]) != (38, 0):
                return SmtResult("counterexample", detail="rowtype precision/scale of BIGINT", model={"tag": tag}, programs=queries)
        elif tag == "VARCHAR":
            want_len = z3.If(ln_null, z3.IntVal(16777216), ln)
            good += [d_type.val == z3.Concat(z3.StringVal("VARCHAR("), z3.IntToStr(want_len), z3.StringVal(")")), v_len.null == ln_null, z3.Implies(z3.Not(ln_null), v_len.val == ln)]
        else:
            good += [d_type.val == z3.StringVal(sf_desc)]
            if tag == "DOUBLE":
                good += [v_prec.null, v_scale.null]
        dom = z3.And(p >= 1, p <= 38, s >= 0, s <= p, ln >= 1, ln <= 16777216)
        verdict, model, dt_s, notes = check([dom, z3.Not(z3.And(*good))], timeout_s=tier(60, 300))
        queries += 1
        secs += dt_s
        if verdict == "sat":
            md = {"tag": tag, "p": model.eval(p, model_completion=True).as_long(), "s": model.eval(s, model_completion=True).as_long(), "len": None if z3.is_true(model.eval(ln_null, model_completion=True)) else model.eval(ln, model_completion=True).as_long(), "view_data_type": str(model.eval(v_type.val, model_completion=True)), "describe_type": str(model.eval(d_type.val, model_completion=True))}
            return SmtResult("counterexample", queries=queries, solver_s=secs, detail=f"{tag}: {md}", model=md, samples=samples, programs=queries)
        if verdict != "unsat":
            return SmtResult("inconclusive", queries=queries, solver_s=secs, detail=f"{tag}: solver {verdict} {notes}", samples=samples, programs=queries)
        if len(samples) < 3:
            samples.append({"duckdb_type": tag, "snowflake": sf_name, "verdict": "unsat"})
    return SmtResult("holds", queries=queries, solver_s=secs, detail=f"{queries} DuckDB types", samples=samples, programs=queries)


def _real_types(a: dict):
    from vf.real import real_cursor

    tag = a.get("tag")
    decl = {"BIGINT": "int", "DECIMAL": f"number({a.get('p', 10)},{a.get('s', 2)})", "DOUBLE": "float", "VARCHAR": f"varchar({a['len']})" if a.get("len") else "varchar", "BOOLEAN": "boolean", "DATE": "date", "TIME": "time", "TIMESTAMP": "timestamp_ntz", "TIMESTAMP WITH TIME ZONE": "timestamp_tz", "BLOB": "binary", "JSON": "variant"}.get(tag)
    if decl is None:
        return None, "unknown tag"
    fs, conn, cur = real_cursor(False)
    cur.execute(f"create table tv (c {decl})")
    info = cur.execute("select data_type, numeric_precision, numeric_scale, character_maximum_length from information_schema.columns where table_name = 'TV'").fetchall()[0]
    dtype = cur.execute("describe table tv").fetchall()[0][1]
    sf_name, sf_desc, sf_row = VOCAB[tag]
    problems = []
    if info[0] != sf_name:
        problems.append(f"information_schema data_type {info[0]} != {sf_name}")
    if tag == "DECIMAL" and (info[1], info[2]) != (a.get("p", 10), a.get("s", 2)):
        problems.append(f"precision/scale {info[1:3]}")
    if tag == "DECIMAL" and dtype != f"NUMBER({a.get('p', 10)},{a.get('s', 2)})":
        problems.append(f"describe type {dtype}")
    if tag == "VARCHAR" and dtype != f"VARCHAR({a.get('len') or 16777216})":
        problems.append(f"describe type {dtype}")
    if sf_desc and dtype != sf_desc:
        problems.append(f"describe type {dtype} != {sf_desc}")
    return bool(problems), "real stack: " + ("; ".join(problems) or "vocabularies agree")


REGISTRY["C09.three_type_vocabularies_agree"].real_replay = _real_types


# ------------------------------------------------------------------ SHOW filters hide fakesnow's own objects
def _internal_objects() -> list:
    """Names of the objects fakesnow's bootstrap creates inside information_schema (read from its own SQL)."""
    names = []
    for st in sqlglot.parse(finfo.creation_sql("DB1"), read="duckdb"):
        if isinstance(st, exp.Create):
            t = st.find(exp.Table)
            if t is not None and t.db.lower() == "information_schema":
                names.append((t.name, str(st.args.get("kind")).upper()))
    return names


SHOWS = [
    ("show tables", None, None, True),
    ("show objects", None, None, False),
    ("show tables in account", None, None, True),
    ("show tables in database db2", "DB2", None, True),
    ("show terse objects in database db2", "DB2", None, False),
    ("show tables in schema db2.s3", "DB2", "S3", True),
    ("show objects in schema s2", "DB1", "S2", False),
    ("show terse tables in schema db1.s1", "DB1", "S1", True),
]


@ob(
    "C09.show_filters_hide_internal_objects",
    kind="smt",
    encodes=["fakesnow.transforms.show_objects_tables (emitted WHERE clause)", "fakesnow.info_schema.creation_sql (names of the internal objects)"],
    bounds="8 SHOW TABLES/OBJECTS forms (no scope, account, database, schema; terse) evaluated on ONE symbolic row of information_schema.tables "
    "(catalog, schema, name, type: z3 strings): a row naming one of fakesnow's own _fs_* information_schema objects never passes; a user row (schema other "
    "than information_schema) passes exactly when it is in the statement's scope and, for SHOW TABLES, a base table",
    timeout=(300, 900),
    carve="C09-internal-objects-listed-by-show, C09-show-without-scope-is-account-wide",
)
def show_filters() -> SmtResult:
    internal = _internal_objects()
    if not internal:
        return SmtResult("inconclusive", detail="no internal objects found in creation_sql")
    cat, sch, name, typ = z3.String("cat"), z3.String("sch"), z3.String("name"), z3.String("typ")
    row = {"TABLE_CATALOG": Q.SV("str", Q.F, cat), "TABLE_SCHEMA": Q.SV("str", Q.F, sch), "TABLE_NAME": Q.SV("str", Q.F, name), "TABLE_TYPE": Q.SV("str", Q.F, typ)}
    queries, secs, samples = 0, 0.0, []
    for sql, sdb, ssch, tables_only in SHOWS:
        try:
            tree = emitted(sql)
            where = tree.args.get("where")
            passes = Q.is_true(Q.ev(where.this, row))
        except Q.Unsupported as e:
            return SmtResult("inconclusive", queries=queries, solver_s=secs, detail=f"{sql}: {e}")
        except Exception as e:  # noqa: BLE001
            return SmtResult("counterexample", queries=queries, solver_s=secs, detail=f"{sql}: pipeline raised {type(e).__name__}: {e}", model={"show": sql}, programs=queries)
        hidden = [(n, k) for n, k in internal if n.lower().startswith("_fs_")]
        is_internal = z3.And(
            sch == z3.StringVal("information_schema"),
            z3.Or([z3.And(name == z3.StringVal(n), typ == z3.StringVal("VIEW" if k == "VIEW" else "BASE TABLE")) for n, k in hidden]),
        )
        in_scope = z3.And(cat == z3.StringVal(sdb) if sdb else Q.T, sch == z3.StringVal(ssch) if ssch else Q.T)
        is_user = z3.And(sch != z3.StringVal("information_schema"), z3.Length(name) >= 1, z3.Length(name) <= 8)
        type_ok = typ == z3.StringVal("BASE TABLE") if tables_only else Q.T
        dom_type = z3.Or(typ == z3.StringVal("BASE TABLE"), typ == z3.StringVal("VIEW"))
        bad = z3.Or(z3.And(is_internal, passes), z3.And(is_user, passes != z3.And(in_scope, type_ok)))
        verdict, model, dt, notes = check([dom_type, z3.Length(cat) <= 4, z3.Length(sch) <= 18, bad], timeout_s=tier(60, 300))
        queries += 1
        secs += dt
        if verdict == "sat":
            md = {"show": sql, "row": {k: str(model.eval(v, model_completion=True)) for k, v in (("catalog", cat), ("schema", sch), ("name", name), ("type", typ))}}
            return SmtResult("counterexample", queries=queries, solver_s=secs, detail=str(md), model=md, samples=samples, programs=queries)
        if verdict != "unsat":
            return SmtResult("inconclusive", queries=queries, solver_s=secs, detail=f"{sql}: solver {verdict}", samples=samples, programs=queries)
        if len(samples) < 3:
            samples.append({"show": sql, "where": where.sql(dialect="duckdb")[:160], "verdict": "unsat"})
    return SmtResult("holds", queries=queries, solver_s=secs, detail=f"{queries} SHOW forms", samples=samples, programs=queries)


def _real_show(a: dict):
    from vf.real import real_cursor

    fs, conn, cur = real_cursor(False)
    for ddl in ("create schema db1.s2", "create database db2", "create schema db2.s3", "create table db1.s1.t1 (a int)", "create table db2.s3.t9 (a int)", "create view db1.s2.v1 as select 1 a"):
        cur.execute(ddl)
    sql = a.get("show", "show tables")
    rows = cur.execute(sql).fetchall()
    names = [(r[3], r[4], r[1]) for r in rows]
    internal = [n for n in names if n[1].lower() == "information_schema" and n[2].lower().startswith("_fs_")]
    return bool(internal), f"real stack: {sql} lists {names}"


REGISTRY["C09.show_filters_hide_internal_objects"].real_replay = _real_show


# ------------------------------------------------------------------ VARCHAR length bookkeeping (symbolic length)
@ob(
    "C09.text_length_is_recorded_exactly",
    encodes=["fakesnow.transforms.extract_text_length", "fakesnow.info_schema.insert_text_lengths_sql"],
    bounds="CREATE TABLE / ALTER TABLE ADD COLUMN with a VARCHAR(n) / TEXT(n) / STRING column, n symbolic in 1..9999 written into the parsed type "
    "parameter, plus columns without a length: the transform records (column, n) resp. (column, 16777216), and the SQL recording it carries n and "
    "the octet length min(4n, 16777216)",
    timeout=(300, 900),
    shards=(3, 3),
)
def text_length(n: int, form: int) -> bool:
    """
    pre: 1 <= n <= 9999 and 0 <= form <= 2 and (SHARD < 0 or form == SHARD)
    post: _
    """
    f = fast.pick(form, 3)
    sql = ["create table t (id int, name varchar(77), note text, code string(77))", "alter table t add column name varchar(77)", "create table t as select cast(x as varchar(77)) as name from u"][f]
    e = sqlglot.parse_one(sql, read="snowflake").transform(transforms.upper_case_unquoted_identifiers)
    for prm in e.find_all(exp.DataTypeParam):
        prm.this.args["this"] = str(n)
    out = transforms.extract_text_length(e)
    got = out.args.get("text_lengths")
    want = [("NAME", n), ("NOTE", 16777216), ("CODE", n)] if f == 0 else [("NAME", n)]
    if got is None or len(got) != len(want):
        return done(False)
    for (gc, gs), (wc, ws) in zip(got, want):
        if gc != wc or gs != ws:
            return done(False)
    return done(True)


@ob(
    "C09.octet_length_arithmetic",
    encodes=["fakesnow.info_schema.insert_text_lengths_sql"],
    bounds="declared length n symbolic in 1..99, 4194290..4194320 (where 4n crosses 16777216) and 16777200..16777216: the VALUES tuple written to the side table carries n and the octet length min(4n, 16777216)",
    timeout=(300, 900),
)
def octet_length(n: int) -> bool:
    """
    pre: (1 <= n <= 99) or (4194290 <= n <= 4194320) or (16777200 <= n <= 16777216)
    post: _
    """
    text = finfo.insert_text_lengths_sql("DB1", "S1", "T", [("NAME", n)])
    i = text.find("values ")
    j = text.find("ON CONFLICT")
    if i < 0 or j < 0:
        return done(False)
    tup = text[i + 7 : j].strip()
    want = "('DB1', 'S1', 'T', 'NAME', " + str(n) + ", " + str(n * 4 if n * 4 < 16777216 else 16777216) + ")"
    return done(tup == want)


# ------------------------------------------------------------------ metadata rows are keyed by the object the statement names
STMTS = [
    # (sql, expected (db, schema, table), expected comment or None, expected text-length columns)
    ("create table tc (a int) comment = 'c one'", ("DB1", "S1", "TC"), "c one", []),
    ("create table s2.tc (a int, b varchar(5)) comment = 'c two'", ("DB1", "S2", "TC"), "c two", [("B", 5)]),
    ("create table db2.s3.tc (b varchar(9), c text)", ("DB2", "S3", "TC"), None, [("B", 9), ("C", 16777216)]),
    ("create or replace table t2 (z varchar(3)) comment = 'again'", ("DB1", "S1", "T2"), "again", [("Z", 3)]),
    ("comment on table t1 is 'on t1'", ("DB1", "S1", "T1"), "on t1", []),
    ("comment on table db2.s1.t1 is 'other db'", ("DB2", "S1", "T1"), "other db", []),
    ("alter table s2.t1 set comment = 'altered'", ("DB1", "S2", "T1"), "altered", []),
    ("alter table t1 add column extra varchar(12)", ("DB1", "S1", "T1"), None, [("EXTRA", 12)]),
    ("create table tq as select cast(a as varchar(4)) as av from t1", ("DB1", "S1", "TQ"), None, [("AV", 4)]),
    # statements that carry OTHER table properties but declare no comment record no comment (not NULL, not the text 'None')
    ("create transient table tr (a int)", ("DB1", "S1", "TR"), None, []),
    ("create temporary table tmp1 (a int)", ("DB1", "S1", "TMP1"), None, []),
    ("create or replace temp table tmp2 as select a from t1", ("DB1", "S1", "TMP2"), None, []),
    ("create table tcl (a int) cluster by (a)", ("DB1", "S1", "TCL"), None, []),
    ("create or replace transient table t2 (a int) comment = 'kept'", ("DB1", "S1", "T2"), "kept", []),
    ("merge into t1 using t2 on t1.a = t2.a when matched then delete", ("DB1", "S1", "T1"), None, []),
    ("merge into s2.t1 using t2 on t1.a = t2.a when not matched then insert (a) values (t2.a)", ("DB1", "S2", "T1"), None, []),
]


def _bookkeeping(si: int) -> bool:
    sql, (db, sc, tb), comment, lengths = STMTS[si]
    eng = std_engine()
    conn = instance(eng).connect(database="db1", schema="s1")
    base = len(eng.log)
    conn.cursor().execute(sql)
    recs_comment, recs_len = [], []
    for _c, q in eng.log[base:]:
        if not isinstance(q, str):
            continue
        for st in sqlglot.parse(q, read="duckdb"):
            if not isinstance(st, exp.Insert):
                continue
            t = st.find(exp.Table)
            if t is None or not t.name.upper().startswith("_FS_"):
                continue
            vals = st.find(exp.Values)
            for tup in vals.expressions:
                items = [x.this if isinstance(x, exp.Literal) else x.sql() for x in tup.expressions]
                side_db = t.catalog.upper()
                if t.name.upper() == "_FS_TABLES_EXT":
                    recs_comment.append((side_db, items[0], items[1], items[2], items[3]))
                else:
                    recs_len.append((side_db, items[0], items[1], items[2], items[3], int(items[4]), int(items[5])))
            if st.args.get("conflict") is None:
                return False  # re-declaring must overwrite, not fail or duplicate
    if comment is None:
        if recs_comment:
            return False
    else:
        if recs_comment != [(db, db, sc, tb, comment)]:
            return False
    want_len = [(db, db, sc, tb, c, n, min(4 * n, 16777216)) for c, n in lengths]
    return recs_len == want_len


@ob(
    "C09.metadata_rows_are_keyed_by_the_named_object",
    encodes=["fakesnow.cursor.FakeSnowflakeCursor._execute (comment / text-length bookkeeping)", "fakesnow.transforms.extract_comment_on_table", "extract_text_length", "fakesnow.info_schema.insert_table_comment_sql / insert_text_lengths_sql"],
    bounds="16 statements: 9 declaring a comment and/or VARCHAR lengths (CREATE [OR REPLACE] TABLE, CTAS, COMMENT ON, ALTER SET COMMENT, ALTER ADD COLUMN) and 7 that declare none but carry other table properties or create helper tables (TRANSIENT, TEMPORARY, CLUSTER BY, MERGE) at "
    "all three qualification levels from a session on db1.s1: exactly one upsert per declared fact, into the side table of the table's own database, "
    "keyed by (database, schema, table[, column]) of the object the statement names, carrying the declared comment / length / octet length",
    timeout=(300, 600),
    stubs=["K1/K2 vf.duckstub.Engine (logs the SQL reaching the engine)"],
    carve="C09-metadata-outlives-drop, C09-foreign-database-side-table",
)
def bookkeeping(si: int) -> bool:
    """
    pre: 0 <= si < len(STMTS)
    post: _
    """
    return done(fast.native(_bookkeeping, fast.pick(si, len(STMTS))))


def _real_bookkeeping(a: dict):
    from vf.real import real_cursor

    sql, (db, sc, tb), comment, _lengths = STMTS[a["si"]]
    fs, conn, cur = real_cursor(False)
    for ddl in (
        "create schema db1.s2", "create database db2", "create schema db2.s1", "create schema db2.s3", "create table db1.s1.t1 (a int, b varchar)",
        "create table db1.s1.t2 (a int)", "create table db1.s2.t1 (a int)", "create table db2.s1.t1 (a int)", "insert into t2 values (1)",
    ):  # fmt: skip
        cur.execute(ddl)
    try:
        cur.execute(sql)
    except Exception as e:  # noqa: BLE001
        return None, f"statement failed on the real stack: {type(e).__name__}: {str(e)[:120]}"
    rows = []
    for d in ("DB1", "DB2"):
        rows += cur.execute(f"select ext_table_catalog, ext_table_schema, ext_table_name, comment from {d}.information_schema._fs_tables_ext").fetchall()
    want = [(db, sc, tb, comment)] if comment is not None else []
    return sorted(rows) != want, f"real stack: table-comment rows after {sql!r}: {rows}, expected {want}"


REGISTRY["C09.metadata_rows_are_keyed_by_the_named_object"].real_replay = _real_bookkeeping


# ------------------------------------------------------------------ scope plumbing of DESCRIBE / SHOW SCHEMAS / SHOW KEYS
SCOPES = [
    ("describe table t1", {"TABLE_CATALOG": "DB1", "TABLE_SCHEMA": "S1", "TABLE_NAME": "T1"}),
    ("describe table s2.t1", {"TABLE_CATALOG": "DB1", "TABLE_SCHEMA": "S2", "TABLE_NAME": "T1"}),
    ("DESCRIBE TABLE db2.s1.t1", {"TABLE_CATALOG": "DB2", "TABLE_SCHEMA": "S1", "TABLE_NAME": "T1"}),
    ('describe table "DB2"."S1".t1', {"TABLE_CATALOG": "DB2", "TABLE_SCHEMA": "S1", "TABLE_NAME": "T1"}),
    # quoted names are kept exactly as written, unquoted ones fold to upper case - in every position
    ('describe table "quoted_s".t1', {"TABLE_CATALOG": "DB1", "TABLE_SCHEMA": "quoted_s", "TABLE_NAME": "T1"}),
    ('describe table db1."Mixed_S"."people"', {"TABLE_CATALOG": "DB1", "TABLE_SCHEMA": "Mixed_S", "TABLE_NAME": "people"}),
    ('DESCRIBE VIEW "quoted_s"."V 1"', {"TABLE_CATALOG": "DB1", "TABLE_SCHEMA": "quoted_s", "TABLE_NAME": "V 1"}),
    ('describe table "S2".T1', {"TABLE_CATALOG": "DB1", "TABLE_SCHEMA": "S2", "TABLE_NAME": "T1"}),
    ("describe table Db2.s1.T1", {"TABLE_CATALOG": "DB2", "TABLE_SCHEMA": "S1", "TABLE_NAME": "T1"}),
    ("show schemas", {"CATALOG_NAME": "DB1"}),
    ("show schemas in database db2", {"CATALOG_NAME": "DB2"}),
    ("show primary keys in schema db1.s2", {"DATABASE_NAME": "DB1", "SCHEMA_NAME": "S2"}),
    ("show primary keys in schema s2", {"DATABASE_NAME": "DB1", "SCHEMA_NAME": "S2"}),
    ("show primary keys in table t1", {"TABLE_NAME": "T1"}),
    # a qualified table scope stays inside the named table's database (that the schema part is ignored is part of the listed finding)
    ("show primary keys in table s2.t1", {"DATABASE_NAME": "DB1", "TABLE_NAME": "T1"}),
    ("show primary keys in table db1.s2.t1", {"DATABASE_NAME": "DB1", "TABLE_NAME": "T1"}),
    ("show unique keys in table s2.t1", {"DATABASE_NAME": "DB1", "TABLE_NAME": "T1"}),
    ("show imported keys in table db1.s1.t2", {"DATABASE_NAME": "DB1", "TABLE_NAME": "T2"}),
]


def _scope(si: int, from_other: bool) -> bool:
    sql, want = SCOPES[si]
    eng = std_engine()
    for sc, tb in (("quoted_s", "T1"), ("quoted_s", "V 1"), ("Mixed_S", "people")):
        if not eng.has_schema("DB1", sc):
            eng.add_schema("DB1", sc)
        eng.add_table("DB1", sc, tb)
    conn = instance(eng).connect(database="db1", schema="s1")
    base = len(eng.log)
    cur = conn.cursor()
    cur.execute(sql)
    last = [q for _c, q in eng.log[base:] if isinstance(q, str) and q.lstrip().upper().startswith("SELECT")]
    if not last:
        return False
    tree = sqlglot.parse_one(last[-1], read="duckdb")
    eqs = {}
    for eq in tree.find_all(exp.EQ):
        if isinstance(eq.this, exp.Column) and isinstance(eq.expression, exp.Literal):
            eqs.setdefault(eq.this.name.upper(), []).append(eq.expression.this)
    for col, val in want.items():
        if col not in eqs or any(v != val for v in eqs[col]):
            return False  # missing, wrong or self-contradictory restriction
    return True


@ob(
    "C09.describe_and_show_scope_literals",
    encodes=["fakesnow.transforms.describe_table", "show_schemas", "show_keys", "fakesnow.cursor.FakeSnowflakeCursor._execute (DESCRIBE second query)"],
    bounds="18 DESCRIBE TABLE|VIEW / SHOW SCHEMAS / SHOW PRIMARY|UNIQUE|IMPORTED KEYS forms at every qualification level, with unquoted names in any letter case and quoted lower-, mixed- and upper-case names (incl. a space), from a session on db1.s1: the query that reaches the "
    "engine restricts catalog / schema / table to the folded names of the statement, or of the session where the statement leaves them out",
    timeout=(200, 400),
    stubs=["K1/K2 vf.duckstub.Engine"],
    carve="C09-show-keys-of-another-database",
)
def scope_literals(si: int) -> bool:
    """
    pre: 0 <= si < len(SCOPES)
    post: _
    """
    return done(fast.native(_scope, fast.pick(si, len(SCOPES)), False))


# ------------------------------------------------------------------ joins to the side tables use the full key
@ob(
    "C09.metadata_joins_use_full_keys",
    kind="smt",
    encodes=["fakesnow.transforms.information_schema_fs_tables_ext (join condition as emitted)", "fakesnow.info_schema.SQL_CREATE_INFORMATION_SCHEMA_COLUMNS_VIEW (join to _fs_columns_ext)"],
    bounds="one symbolic information_schema row and one symbolic side-table row (all key columns z3 strings): the join condition is true exactly when "
    "catalog, schema, table (and column) all agree - so a comment / length never leaks to an object of another schema or database with the same name",
    timeout=(120, 300),
)
def joins_full_keys() -> SmtResult:
    queries, secs, samples = 0, 0.0, []
    cases = []
    # (1) user query on information_schema.tables as rewritten by the real pipeline
    tree = emitted("select table_name, comment from information_schema.tables where table_schema = 'S1'")
    joins = tree.args.get("joins") or []
    if len(joins) != 1 or joins[0].args.get("on") is None:
        return SmtResult("counterexample", detail="information_schema.tables is not joined to the side table", model={"which": "tables"})
    cases.append(("tables", joins[0].args["on"], [("TABLE_CATALOG", "EXT_TABLE_CATALOG"), ("TABLE_SCHEMA", "EXT_TABLE_SCHEMA"), ("TABLE_NAME", "EXT_TABLE_NAME")]))
    # (2) the columns view
    view = sqlglot.parse_one(finfo.SQL_CREATE_INFORMATION_SCHEMA_COLUMNS_VIEW.substitute(catalog="DB1"), read="duckdb").find(exp.Select)
    vj = [j for j in (view.args.get("joins") or []) if j.this.name.lower() == "_fs_columns_ext"]
    if len(vj) != 1:
        return SmtResult("counterexample", detail="the columns view does not join _fs_columns_ext", model={"which": "columns"})
    cases.append(("columns", vj[0].args["on"], [("TABLE_CATALOG", "EXT_TABLE_CATALOG"), ("TABLE_SCHEMA", "EXT_TABLE_SCHEMA"), ("TABLE_NAME", "EXT_TABLE_NAME"), ("COLUMN_NAME", "EXT_COLUMN_NAME")]))
    for which, on, keys in cases:
        row = {}
        eqs = []
        for a, b in keys:
            va, vb = z3.String(f"{which}_{a}"), z3.String(f"{which}_{b}")
            row[a] = Q.SV("str", Q.F, va)
            row[b] = Q.SV("str", Q.F, vb)
            eqs.append(va == vb)
        try:
            cond = Q.is_true(Q.ev(on, row))
        except Q.Unsupported as e:
            return SmtResult("inconclusive", queries=queries, solver_s=secs, detail=f"{which}: {e}")
        verdict, model, dt, notes = check([cond != z3.And(*eqs)], timeout_s=60)
        queries += 1
        secs += dt
        if verdict == "sat":
            md = {"which": which, "row": {k: str(model.eval(v.val, model_completion=True)) for k, v in row.items()}}
            return SmtResult("counterexample", queries=queries, solver_s=secs, detail=str(md), model=md, programs=queries)
        if verdict != "unsat":
            return SmtResult("inconclusive", queries=queries, solver_s=secs, detail=f"{which}: {verdict}")
        samples.append({"join": which, "on": on.sql(dialect="duckdb")[:200], "verdict": "unsat"})
    return SmtResult("holds", queries=queries, solver_s=secs, detail="2 joins", samples=samples, programs=queries)


def _real_joins(a: dict):
    from vf.real import real_cursor

    fs, conn, cur = real_cursor(False)
    for ddl in ("create schema db1.s2", "create table db1.s1.tx (a varchar(5)) comment = 'in s1'", "create table db1.s2.tx (a varchar(9))"):
        cur.execute(ddl)
    rows = sorted(cur.execute("select table_schema, comment from information_schema.tables where table_name = 'TX'").fetchall())
    lens = sorted(cur.execute("select table_schema, character_maximum_length from information_schema.columns where table_name = 'TX'").fetchall())
    bad = rows != [("S1", "in s1"), ("S2", None)] or lens != [("S1", 5), ("S2", 9)]
    return bad, f"real stack: comments {rows}, lengths {lens}"


REGISTRY["C09.metadata_joins_use_full_keys"].real_replay = _real_joins


# ------------------------------------------------------------------ statements that declare nothing write no metadata (whatever ran before them)
PRIORS = [
    [],
    ["alter table t1 set comment = 'old'", "comment on table t1 is 'new'"],
    ["comment on table t1 is 'old'", "alter table t1 set comment = 'new'"],
    ["create table tp (a varchar(3)) comment = 'tp'"],
]
NOOPS = ["set v9 = 1", "alter table t1 cluster by (a)", "alter table t1 set tag cost = 'x'", "create tag cost", "select a from t1", "use schema s2", "begin", "insert into t1 (a) values (1)"]


def _warm_up_priors() -> None:
    """fakesnow keeps process-level state (module-level expression objects); throw-away sessions run every prefix first so that such state is
    the same in every path and in the replay process."""
    for pre in PRIORS:
        e0 = std_engine()
        c0 = instance(e0).connect(database="db1", schema="s1")
        for q in pre:
            c0.cursor().execute(q)


def _noop_writes_nothing(pi: int, ni: int, other_session: bool) -> bool:
    _warm_up_priors()
    eng = std_engine()
    fs = instance(eng)
    conn = fs.connect(database="db1", schema="s1")
    for q in PRIORS[pi]:
        conn.cursor().execute(q)
    actor = fs.connect(database="db1", schema="s2") if other_session else conn
    base = len(eng.log)
    actor.cursor().execute(NOOPS[ni])
    for _c, q in eng.log[base:]:
        if isinstance(q, str) and "_fs_" in q.lower() and q.lstrip().upper().startswith(("INSERT", "UPDATE", "DELETE")):
            return False  # metadata written by a statement that declares none
    return True


@ob(
    "C09.statements_that_declare_nothing_write_no_metadata",
    encodes=["fakesnow.cursor.FakeSnowflakeCursor.execute/_transform/_execute", "fakesnow.transforms.extract_comment_on_table / SUCCESS_NOP (shared state)"],
    bounds="8 statements that declare no comment / length (SET, CLUSTER BY and TAG no-ops, CREATE TAG, SELECT, USE, BEGIN, INSERT) executed after 4 "
    "session prefixes (nothing; ALTER SET COMMENT then COMMENT ON; COMMENT ON then ALTER SET COMMENT; CREATE TABLE with comment and length), by the "
    "same or by another session: no write to the metadata side tables reaches the engine",
    timeout=(200, 400),
    stubs=["K1/K2 vf.duckstub.Engine"],
)
def noop_writes_nothing(pi: int, ni: int, other_session: bool) -> bool:
    """
    pre: 0 <= pi < len(PRIORS) and 0 <= ni < len(NOOPS)
    post: _
    """
    return done(fast.native(_noop_writes_nothing, fast.pick(pi, len(PRIORS)), fast.pick(ni, len(NOOPS)), bool(fast.pick(other_session, 2))))


# ------------------------------------------------------------------ independence of what happened before (shared harness)
import obligations.shared_independence as _indep  # noqa: E402

_IND_PRIORS = (6, 7, 8)


@ob(
    "C09.metadata_declared_elsewhere_does_not_leak",
    encodes=["fakesnow.cursor.FakeSnowflakeCursor.execute/_transform/_execute/description/fetch*", "fakesnow.conn / fakesnow.variables / fakesnow.transforms (any state kept between statements)"],
    bounds="prior activity: comments / lengths declared for OTHER tables (COMMENT ON and ALTER SET COMMENT in both orders, CREATE TABLE with metadata in another database); then one of " + str(len(_indep.SUBJECTS)) + " statements (queries, DML, DDL with metadata, COMMENT, "
    "DESCRIBE, SHOW, USE, SET, MERGE, seeded RANDOM, BEGIN, a nop_regexes match, two failing statements, TRUNCATE) on the same or another cursor, tuple or "
    "dict: SQL reaching the engine, rows, rowcount, description names, error, sqlstate, session context and the statement's own effect on catalog, "
    "metadata and variables equal those on a fresh identical session",
    timeout=(300, 600),
    stubs=["K1/K2/K6 vf.duckstub.Engine"],
    shards=(11, 11),
)
def independence(si: int, pk: int, as_dict: bool, same_cursor: bool) -> bool:
    """
    pre: 0 <= si < len(_indep.SUBJECTS) and 0 <= pk < len(_IND_PRIORS) and (SHARD < 0 or si % 11 == SHARD)
    post: _
    """
    from vf import fast as _f

    return done(_f.native(_indep.independent, _f.pick(si, len(_indep.SUBJECTS)), _IND_PRIORS[_f.pick(pk, len(_IND_PRIORS))], bool(_f.pick(as_dict, 2)), bool(_f.pick(same_cursor, 2))))

import obligations.C06  # noqa: E402,F401
from vf.registry import alias  # noqa: E402

alias("C09.description_agrees_with_the_declared_type", "C06.rowtype_of_every_reachable_type", "precision / scale / length that DESCRIBE and information_schema report for a declared type equal what cursor.description of SELECT * reports for the engine type it was mapped to")
