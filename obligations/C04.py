"""C04 - DML reports the true affected count; DDL returns the Snowflake status message naming the object.

Engine E1: real FakeSnowflakeCursor.execute (parse, transforms, _execute) against the stub engine whose DML
answer is a *symbolic* affected-row count.
"""
from __future__ import annotations

from snowflake.connector.cursor import DictCursor

from vf import fast
from vf.duckstub import validate_engine
from vf.registry import REGISTRY, done, ob
from vf.session import instance, std_engine
from vf.stubs import StubTable1

fast.install()

META = {
    "level": "other",
    "explanation": "C04: the affected-row count DuckDB reports is a symbolic integer; the status row, its column names and "
    "cursor.rowcount produced by the real _execute must equal it for every DML form; DDL status text is checked for a pool of "
    "object spellings at every qualification level.",
    "assumptions": [
        "K1: DuckDB answers INSERT/UPDATE/DELETE with one row (n,), n = rows affected; which rows a predicate selects is DuckDB's",
        "the SQL-level transparency of the transform pipeline for DML (DESIGN C04.c) is not covered by this check",
    ],
}

DML = [
    ("insert into t1 values (1, 'a')", "INSERT", "DB1.S1.T1", ["number of rows inserted"]),
    ("insert into t1 (a, b) values (1, 'a'), (2, 'b'), (3, null)", "INSERT", "DB1.S1.T1", ["number of rows inserted"]),
    ("insert into db1.s2.t1 select a from t2 where a > 3", "INSERT", "DB1.S2.T1", ["number of rows inserted"]),
    ("insert into s2.t1 (a) select a from db2.s1.t1", "INSERT", "DB1.S2.T1", ["number of rows inserted"]),
    ("update t1 set b = 'x'", "UPDATE", "DB1.S1.T1", ["number of rows updated", "number of multi-joined rows updated"]),
    ("update t1 set a = a + 1 where b is null or a in (select a from t2)", "UPDATE", "DB1.S1.T1", ["number of rows updated", "number of multi-joined rows updated"]),
    ("UPDATE db2.s1.t1 SET a = 0 WHERE a <> 0", "UPDATE", "DB2.S1.T1", ["number of rows updated", "number of multi-joined rows updated"]),
    ("delete from t1", "DELETE", "DB1.S1.T1", ["number of rows deleted"]),
    ("delete from t1 where a = 1 and b like 'x%'", "DELETE", "DB1.S1.T1", ["number of rows deleted"]),
    ("DELETE FROM s2.t1 USING t2 WHERE s2.t1.a = t2.a", "DELETE", "DB1.S2.T1", ["number of rows deleted"]),
]


def validate_contracts():
    return validate_engine()


def _session():
    eng = std_engine()
    fs = instance(eng)
    conn = fs.connect(database="db1", schema="s1")
    return eng, fs, conn


@ob(
    "C04.dml_count_plumbing",
    encodes=["fakesnow.cursor.FakeSnowflakeCursor.execute/_transform/_execute", "fakesnow.expr.key_command", "fetchall", "rowcount"],
    bounds="10 DML statement forms (INSERT values/multi-row/column list/INSERT..SELECT, UPDATE with/without predicate, DELETE with/without "
    "predicate/USING, at all three qualification levels) x affected count n symbolic in 0..99999 x tuple/dict cursor",
    timeout=(240, 600),
    stubs=["K1/K2 vf.duckstub.Engine (DML answers (n,) with symbolic n)"],
)
def dml_count(k: int, n: int, as_dict: bool) -> bool:
    """
    pre: 0 <= k < len(DML) and 0 <= n <= 99999
    post: _
    """
    sql, kind, target, names = DML[k]
    eng, fs, conn = fast.native(_session)
    w0 = len(eng.writes)
    eng.dml_count = n
    cur = conn.cursor(DictCursor) if as_dict else conn.cursor()
    cur.execute(sql)
    if cur.rowcount != n:
        return done(False)
    rows = cur.fetchall()
    if len(rows) != 1:
        return done(False)
    if as_dict:
        if list(rows[0].keys()) != names or rows[0][names[0]] != n:
            return done(False)
        if len(names) == 2 and rows[0][names[1]] != 0:
            return done(False)
    else:
        if rows[0][0] != n or len(rows[0]) != len(names):
            return done(False)
    # exactly one write, to the table the statement names, and nothing else in the catalog moved
    new = eng.writes[w0:]
    if len(new) != 1 or new[0][1] != kind or new[0][2] != target:
        return done(False)
    return done(cur.sqlstate is None and conn.database == "DB1" and conn.schema == "S1")


def _real_dml(a: dict):
    from vf.real import real_cursor

    n, k = a["n"], a["k"]
    if n > 40:
        return None, "count too large to stage on the real engine"
    sql, kind, target, names = DML[k]
    fs, conn, cur = real_cursor(a["as_dict"])
    for ddl in (
        "create schema db1.s2",
        "create database db2",
        "create schema db2.s1",
        "create table db1.s1.t1 (a int, b varchar)",
        "create table db1.s1.t2 (a int)",
        "create table db1.s2.t1 (a int)",
        "create table db2.s1.t1 (a int)",
    ):
        cur.execute(ddl)
    # stage data so that the statement affects exactly n rows where that is controllable
    c, s, t = target.split(".")
    if kind == "INSERT" and "select" in sql:
        src = "db1.s1.t2" if "t2" in sql else "db2.s1.t1"
        for i in range(n):
            cur.execute(f"insert into {src} values ({10 + i})")
        expect = n
    elif kind == "INSERT":
        expect = sql.count("(") - (1 if "(a, b)" in sql else 0)
    elif "where" not in sql.lower():
        for i in range(n):
            cur.execute(f"insert into {target} values ({i}, 'x')" if t == "T1" and s == "S1" else f"insert into {target} values ({i})")
        expect = n
    else:
        expect = 0
    cur.execute(sql)
    row = cur.fetchall()[0]
    got = row[names[0]] if a["as_dict"] else row[0]
    bad = cur.rowcount != expect or got != expect
    return bad, f"real stack: {sql!r} affected {expect}: rowcount={cur.rowcount} status={row!r}"


REGISTRY["C04.dml_count_plumbing"].real_replay = _real_dml


@ob(
    "C04.select_rowcount",
    encodes=["fakesnow.cursor.FakeSnowflakeCursor._execute (rowcount for result sets)"],
    bounds="result of a query: any list of 0..5 integers; rowcount must equal the number of result rows",
    timeout=(60, 200),
    stubs=["K1 engine stub serves the configured result", "K5 StubTable1"],
)
def select_rowcount(vals: list[int]) -> bool:
    """
    pre: len(vals) <= 5
    post: _
    """
    eng, fs, conn = fast.native(_session)
    eng.query_result = StubTable1("A", vals)
    w0 = len(eng.writes)
    cur = conn.cursor()
    cur.execute("select a from t1 where a > 0")
    return done(cur.rowcount == len(vals) and len(eng.writes) == w0)


# ---------------------------------------------------------------- DDL status text
NAMES = [("tab", "TAB"), ("Tab", "TAB"), ("TAB", "TAB"), ('"Tab"', "Tab"), ('"tab x"', "tab x"), ("t_1", "T_1"), ("identifier('tab')", "TAB"), ("IDENTIFIER('Tab_2')", "TAB_2")]
QUAL = ["", "s2.", "db2.s3.", "DB2.S3.", '"DB2"."S3".']
DDL = [
    # (template, expected message template, needs table to pre-exist, object kind)
    ("create table {q}{n} (a int, b varchar(10))", "Table {N} successfully created.", False, "TABLE"),
    ("CREATE OR REPLACE TABLE {q}{n} (a int)", "Table {N} successfully created.", True, "TABLE"),
    ("create table if not exists {q}{n} (a int)", "Table {N} successfully created.", False, "TABLE"),
    ("create table {q}{n} as select a from db1.s1.t1", "Table {N} successfully created.", False, "TABLE"),
    ("create view {q}{n} as select a from db1.s1.t1", "View {N} successfully created.", False, "VIEW"),
    ("drop table {q}{n}", "{N} successfully dropped.", True, "TABLE"),
    ("DROP TABLE IF EXISTS {q}{n}", "{N} successfully dropped.", True, "TABLE"),
    ("drop view {q}{n}", "{N} successfully dropped.", True, "VIEW"),
    ("create table {q}{n} (a int, b varchar(10)) comment = 'with a comment'", "Table {N} successfully created.", False, "TABLE"),
    ("create or replace table {q}{n} (a int) COMMENT = 'again'", "Table {N} successfully created.", True, "TABLE"),
    ("alter table {q}{n} add column c int", "Statement executed successfully.", True, "TABLE"),
    ("alter table {q}{n} rename to {q}zz", "Statement executed successfully.", True, "TABLE"),
]


@ob(
    "C04.ddl_status_names_object",
    encodes=["fakesnow.cursor.FakeSnowflakeCursor.execute/_execute (status message synthesis)", "fakesnow.transforms.upper_case_unquoted_identifiers"],
    bounds="12 table/view DDL forms (incl. CREATE TABLE with a COMMENT) x 8 object spellings (lower/mixed/upper, quoted mixed, quoted with space, with _ and digit, through IDENTIFIER('...') in two cases) x 5 "
    "qualification spellings (none, schema, database.schema lower/upper/quoted)",
    timeout=(300, 600),
    stubs=["K2 vf.duckstub.Engine"],
    shards=(5, 5),
)
def ddl_status(d: int, ni: int, qi: int) -> bool:
    """
    pre: 0 <= d < len(DDL) and 0 <= ni < len(NAMES) and 0 <= qi < len(QUAL) and (SHARD < 0 or qi == SHARD)
    post: _
    """
    return done(_ddl_status_body(d, ni, qi, None))


def _ddl_status_body(d: int, ni: int, qi: int, real) -> bool:
    tmpl, msg, pre_exists, kind = DDL[d]
    spelled, folded = NAMES[ni]
    q = QUAL[qi]
    if spelled.lower().startswith("identifier(") and (qi != 0 or "rename" in tmpl):
        return True  # IDENTIFIER() names are only exercised unqualified
    if real is None:
        eng, fs, conn = _session()
        db, sc = ("DB1", "S1") if qi == 0 else ("DB1", "S2") if qi == 1 else ("DB2", "S3")
        if pre_exists:
            eng.add_table(db, sc, folded, kind=kind)
        cur = conn.cursor()
    else:
        conn, cur = real
        if pre_exists:
            plain = folded if spelled.lower().startswith("identifier(") else spelled
            cur.execute(f"create {'view' if kind == 'VIEW' else 'table'} {q}{plain} " + ("as select 1 a" if kind == "VIEW" else "(a int)"))
    cur.execute(tmpl.format(q=q, n=spelled))
    rows = cur.fetchall()
    want = msg.format(N=folded)
    if rows != [(want,)] or cur.rowcount != 1:
        return False
    if real is None:
        objs = eng.dbs[db]["schemas"][sc]
        key = folded.upper()  # the stub keeps names case-insensitively, like DuckDB
        if tmpl.startswith(("create", "CREATE")) and (key not in objs or objs[key].kind != kind):
            return False
        if tmpl.lower().startswith("drop") and key in objs:
            return False
    return conn.database == "DB1" and conn.schema == "S1"


from vf.registry import SHARD  # noqa: E402


def _real_ddl(a: dict):
    from vf.real import real_cursor

    fs, conn, cur = real_cursor(False)
    for ddl in ("create schema db1.s2", "create database db2", "create schema db2.s3", "create table db1.s1.t1 (a int)"):
        cur.execute(ddl)
    try:
        ok = _ddl_status_body(a["d"], a["ni"], a["qi"], (conn, cur))
    except Exception as e:  # noqa: BLE001
        return True, f"real stack raised {type(e).__name__}: {e}"
    return (not ok), f"real stack: harness body returned {ok}"


REGISTRY["C04.ddl_status_names_object"].real_replay = _real_ddl


SCHEMA_DDL = [
    ("create schema {q}{n}", "Schema {N} successfully created."),
    ("CREATE SCHEMA IF NOT EXISTS {q}{n}", "Schema {N} successfully created."),
    ("drop schema {q}{n}", "{N} successfully dropped."),
    ("create database {n}", "Database {N} successfully created."),
]


@ob(
    "C04.schema_database_status",
    encodes=["fakesnow.cursor.FakeSnowflakeCursor._execute (CREATE/DROP SCHEMA|DATABASE status)", "fakesnow.transforms.create_database", "fakesnow.transforms.drop_schema_cascade"],
    bounds="4 schema/database DDL forms (DROP DATABASE is not supported by fakesnow: outside the claim) x 4 object spellings (lower/mixed/upper/with _ and digit) x qualified or not",
    timeout=(200, 400),
    stubs=["K2 vf.duckstub.Engine"],
)
def schema_status(d: int, ni: int, qualified: bool) -> bool:
    """
    pre: 0 <= d < len(SCHEMA_DDL) and ni in (0, 1, 2, 5)
    post: _
    """
    tmpl, msg = SCHEMA_DDL[d]
    spelled, folded = NAMES[ni]
    eng, fs, conn = _session()
    q = "db2." if qualified and "database" not in tmpl else ""
    db = "DB2" if q else "DB1"
    if tmpl.startswith("drop schema"):
        eng.add_schema(db, folded)
        eng.add_table(db, folded, "X")  # non-empty: Snowflake drops it anyway
    cur = conn.cursor()
    cur.execute(tmpl.format(q=q, n=spelled))
    rows = cur.fetchall()
    if rows != [(msg.format(N=folded),)]:
        return done(False)
    if "schema" in tmpl.lower():
        exists = folded in eng.dbs[db]["schemas"]
    else:
        exists = folded in eng.dbs
    return done(exists == tmpl.lower().startswith("create") and conn.database == "DB1" and conn.schema == "S1")


# ------------------------------------------------------------------ DML with bound values: the values, hence the affected rows, are exactly the bound ones (shared with C01)
import obligations.C01  # noqa: E402,F401
from vf.registry import alias  # noqa: E402

alias("C04.dml_bound_values_are_not_rewritten", "C01.bound_values_reach_the_engine_unchanged", "an INSERT with bound values (incl. text that looks like a session-variable reference while such variables are set) changes exactly the rows it names")

import obligations.C16  # noqa: E402,F401

alias("C04.each_script_statement_reports_its_own_count", "C16.execute_string_equals_one_by_one", "in a sequence of DML statements run as one script every statement has its own cursor, status row and rowcount")
