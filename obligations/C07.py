"""C07 - failures are Snowflake errors with the right codes, and change nothing.

Engine E1: real execute()/executemany()/execute_string()/description/commit/rollback against the stub engine, which
raises DuckDB's own exception classes (K4) either because the statement names something missing/duplicate or because
a fault is injected at the statement's first engine call with a symbolic exception class.
"""
from __future__ import annotations

import duckdb
import snowflake.connector.errors

from vf import fast
from vf.duckstub import validate_engine
from vf.registry import REGISTRY, SHARD, done, ob
from vf.session import instance, std_engine

fast.install()

META = {
    "level": "other",
    "explanation": "C07: the way of referring to something missing or duplicate (statement kind x what is missing x qualification level), the "
    "session state, the DuckDB exception class raised at the engine call and the follow-up statement are symbolic choices through the real "
    "error-translation code.",
    "assumptions": [
        "K4: which DuckDB exception class a cause produces (unknown table/schema/already exists -> CatalogException; unknown catalog, "
        "column, arity -> BinderException; closed -> ConnectionException) - validated against real DuckDB at start-up for the causes the stub models; "
        "unknown column/function and wrong arity are represented by an injected BinderException/CatalogException at the engine call",
        "faults are injected at the statement's FIRST engine call only; a failure in a later internal step of a multi-step statement is C18/C19 territory",
        "known finding carved out: write_pandas bypasses the cursor and leaks duckdb exceptions",
    ],
}

# (sql, expected engine exception class or None when it must succeed)
CASES = [
    ("select a from nosuch", "Catalog"),
    ("select a from s2.nosuch", "Catalog"),
    ("select a from db2.s1.nosuch", "Catalog"),
    ("select a from db1.nos.t1", "Catalog"),
    ("select a from nodb.s1.t1", "Binder"),
    ("select t1.a from t1 join nosuch n on t1.a = n.a", "Catalog"),
    ("select a from t1 where a in (select a from nos.t9)", "Catalog"),
    ("insert into nosuch (a) values (1)", "Catalog"),
    ("insert into t1 (a) select a from s2.nosuch", "Catalog"),
    ("update nosuch set a = 1", "Catalog"),
    ("update nodb.s1.t1 set a = 1", "Binder"),
    ("delete from db2.s3.t1", "Catalog"),
    ("drop table nosuch", "Catalog"),
    ("drop view db1.s2.nosuch", "Catalog"),
    ("alter table nosuch add column c int", "Catalog"),
    ("describe table nosuch", "Catalog"),
    ("create table t1 (a int)", "Catalog"),  # already exists
    ("create table s2.t1 (a int)", "Catalog"),
    ("create view t2 as select 1 as a", "Catalog"),
    ("create table nos.tnew (a int)", "Catalog"),  # schema missing
    ("create table nodb.s1.tnew (a int)", "Binder"),  # database missing
    ("create schema s2", "Catalog"),  # already exists
    ("create schema nodb.snew", "Binder"),
    ("drop schema nos", "Catalog"),
    ("use database nodb", "Binder"),
    ("use schema nos", "Catalog"),
    ("use schema nodb.s1", "Binder"),
    ("create table tnew as select a from nosuch", "Catalog"),
    ("truncate table nosuch", "Catalog"),
    # controls that must succeed
    ("select a from t1", None),
    ("create table if not exists t1 (a int)", None),
    ("drop table if exists nosuch", None),
]
CODES = {"Binder": (2043, "02000"), "Catalog": (2003, "42S02")}


def validate_contracts():
    return validate_engine()


def _state(conn, eng):
    vs = getattr(conn.variables, "_variables", None)
    return (conn.database, conn.schema, conn.database_set, conn.schema_set, dict(vs) if vs is not None else None, conn._duck_conn.setting, conn._duck_conn.in_tx, eng.user_snapshot())


def _missing(ci: int, in_tx: bool, follow: int) -> bool:
    sql, cls = CASES[ci]
    eng = std_engine()
    conn = instance(eng).connect(database="db1", schema="s1")
    cur = conn.cursor()
    cur.execute("set keep = 7")
    if in_tx:
        cur.execute("begin")
        cur.execute("insert into t2 values (1)")
    before = _state(conn, eng)
    err = None
    try:
        cur.execute(sql)
    except snowflake.connector.errors.ProgrammingError as e:
        err = e
    # (an engine-specific exception propagates out of the harness and is reported as the counterexample)
    if cls is None:
        if err is not None or cur.sqlstate is not None:
            return False
    else:
        errno, state = CODES[cls]
        if err is None or err.errno != errno or err.sqlstate != state or cur.sqlstate != state:
            return False
        if type(err) is not snowflake.connector.errors.ProgrammingError:
            return False
        # the failed statement left everything as it was, including the open transaction
        if _state(conn, eng) != before:
            return False
    # the connection stays usable and the next execute resets sqlstate
    if follow == 0:
        cur.execute("select a from t1")
        if cur.sqlstate is not None or cur.fetchall() is None:
            return False
    elif follow == 1:
        c2 = conn.cursor()
        c2.execute("insert into t2 values (2)")
        if c2.sqlstate is not None or c2.rowcount != 1:
            return False
    elif follow == 2:
        try:
            cur.execute("select a from nosuch2")
            return False
        except snowflake.connector.errors.ProgrammingError as e2:
            if e2.errno != 2003 or cur.sqlstate != "42S02":
                return False
    else:
        # the next execute resets sqlstate even when it stops early for a reason that is not a Snowflake error
        bad_sql = ["select (", "select 'abc", "select to_decimal(a, 'TM9') from t1"][follow - 3]
        try:
            cur.execute(bad_sql)
            return False
        except snowflake.connector.errors.ProgrammingError:
            return False
        except Exception:  # noqa: BLE001
            if cur.sqlstate is not None:
                return False
    if in_tx:
        cur.execute("rollback")
        if conn._duck_conn.in_tx:
            return False
    return True


@ob(
    "C07.missing_or_duplicate_reference",
    encodes=["fakesnow.cursor.FakeSnowflakeCursor.execute/_execute (exception translation, sqlstate, ordering of session updates)", "fakesnow.transforms.set_schema"],
    bounds="32 statements naming a missing table / view / schema / database or an existing object (SELECT incl. joins and subqueries, INSERT, "
    "INSERT..SELECT, UPDATE, DELETE, TRUNCATE, DROP, ALTER, DESCRIBE, CREATE TABLE/VIEW/SCHEMA, CTAS, USE DATABASE/SCHEMA) at every "
    "qualification level, plus 3 controls that must succeed x inside/outside an open transaction x 6 follow-up uses of the connection (success, DML on another cursor, another Snowflake error, and three executes that stop early with a non-Snowflake error: sqlstate must be reset by each)",
    timeout=(300, 600),
    stubs=["K1-K4 vf.duckstub.Engine"],
    shards=(8, 8),
)
def missing_reference(ci: int, in_tx: bool, follow: int) -> bool:
    """
    pre: 0 <= ci < len(CASES) and 0 <= follow <= 5 and (SHARD < 0 or ci % 8 == SHARD)
    post: _
    """
    return done(fast.native(_missing, fast.pick(ci, len(CASES)), bool(fast.pick(in_tx, 2)), fast.pick(follow, 6)))


def _real_missing(a: dict):
    from fakesnow.instance import FakeSnow

    sql, cls = CASES[a["ci"]]
    fs = FakeSnow()
    conn = fs.connect(database="db1", schema="s1")
    cur = conn.cursor()
    for ddl in (
        "create schema db1.s2", "create database db2", "create schema db2.s1", "create schema db2.s3",
        "create table db1.s1.t1 (a int, b varchar)", "create table db1.s1.t2 (a int)", "create table db1.s2.t1 (a int)", "create table db2.s1.t1 (a int)",
    ):
        cur.execute(ddl)
    if a["in_tx"]:
        cur.execute("begin")
    before = (conn.database, conn.schema, conn.database_set, conn.schema_set)
    try:
        cur.execute(sql)
        got = None
    except snowflake.connector.errors.ProgrammingError as e:
        got = (e.errno, e.sqlstate)
    except Exception as e:  # noqa: BLE001
        return True, f"real stack: {sql!r} raised engine exception {type(e).__name__}: {e}"
    want = CODES[cls] if cls else None
    state_after = cur.sqlstate
    bad = got != want or state_after != (want[1] if want else None) or (want is not None and (conn.database, conn.schema, conn.database_set, conn.schema_set) != before)
    # the next execute resets sqlstate - a successful one, or one that stops early for a non-Snowflake reason
    follow = a.get("follow", 0)
    if follow >= 3:
        bad_sql = ["select (", "select 'abc", "select to_decimal(a, 'TM9') from t1"][follow - 3]
        try:
            cur.execute(bad_sql)
        except Exception:  # noqa: BLE001
            pass
    else:
        cur.execute("select 1")
    reset = cur.sqlstate
    bad = bad or reset is not None
    return bad, f"real stack: {sql!r} -> {got}, sqlstate {state_after}, expected {want}; sqlstate after the next execute (follow-up {follow}): {reset}"


REGISTRY["C07.missing_or_duplicate_reference"].real_replay = _real_missing

FAULTS = [
    ("Binder", lambda: duckdb.BinderException('Binder Error: Referenced column "nope" not found in FROM clause!')),
    ("Binder", lambda: duckdb.BinderException("Binder Error: table t1 has 2 columns but 3 values were supplied")),
    ("Catalog", lambda: duckdb.CatalogException("Catalog Error: Scalar Function with name nofn does not exist!\nDid you mean ...")),
    ("Catalog", lambda: duckdb.CatalogException('Catalog Error: Table with name "t1" already exists!')),
]
FAULT_STMTS = [
    "select nope from t1",
    "insert into t1 values (1, 'a', 3)",
    "select nofn(a) from t1",
    "update t1 set nope = 1",
    "create table tnew (a int) comment = 'c'",
    "create table tnew2 (a varchar(10))",
    "use schema s2",
    "use database db2",
    "create database dbnew",
    "delete from t1 where nope = 1",
]


def _fault(si: int, fi: int, as_many: int) -> bool:
    eng = std_engine()
    conn = instance(eng).connect(database="db1", schema="s1")
    cur = conn.cursor()
    before = _state(conn, eng)
    cls, mk = FAULTS[fi]
    armed = {"n": 0}

    def hook(stub, sql):
        armed["n"] += 1
        if armed["n"] == 1:
            raise mk()

    eng.hooks.append(hook)
    err = None
    try:
        if as_many == 1:
            cur.executemany(FAULT_STMTS[si], [None])
        elif as_many == 2:
            list(conn.execute_string(FAULT_STMTS[si] + ";"))
        else:
            cur.execute(FAULT_STMTS[si])
    except snowflake.connector.errors.ProgrammingError as e:
        err = e
    eng.hooks.remove(hook)
    errno, state = CODES[cls]
    if err is None or err.errno != errno or err.sqlstate != state:
        return False
    if as_many == 0 and cur.sqlstate != state:
        return False
    if "\n" in (err.msg or "") and cls == "Catalog":
        return False  # only the first line of a catalog error is passed on
    return _state(conn, eng) == before


@ob(
    "C07.engine_error_at_first_call",
    encodes=["fakesnow.cursor.FakeSnowflakeCursor.execute/executemany/_execute", "fakesnow.conn.FakeSnowflakeConnection.execute_string"],
    bounds="10 statements (queries, DML, CREATE TABLE with comment / VARCHAR length, USE DATABASE/SCHEMA, CREATE DATABASE) whose first engine call "
    "raises one of 4 DuckDB errors (unknown column, wrong number of values, unknown function, already exists) x execute / executemany / "
    "execute_string: ProgrammingError with the mapped codes, session, variables, catalog and side tables untouched",
    timeout=(300, 600),
    stubs=["K1-K4 vf.duckstub.Engine with a fault hook"],
)
def engine_error(si: int, fi: int, as_many: int) -> bool:
    """
    pre: 0 <= si < len(FAULT_STMTS) and 0 <= fi < len(FAULTS) and 0 <= as_many <= 2
    post: _
    """
    return done(fast.native(_fault, fast.pick(si, len(FAULT_STMTS)), fast.pick(fi, len(FAULTS)), fast.pick(as_many, 3)))


ENTRY = ["execute", "executemany", "execute_string", "description", "commit", "rollback", "cursor_then_execute", "describe"]


def _closed(ei: int, had_result: bool) -> bool:
    eng = std_engine()
    conn = instance(eng).connect(database="db1", schema="s1")
    cur = conn.cursor()
    if had_result:
        cur.execute("select a from t1")
    conn.close()
    if not conn.is_closed():
        return False
    name = ENTRY[ei]
    try:
        if name == "execute":
            cur.execute("select a from t1")
        elif name == "executemany":
            cur.executemany("insert into t1 (a) values (%s)", [(1,), (2,)])
        elif name == "execute_string":
            list(conn.execute_string("select 1; select 2"))
        elif name == "description":
            if not had_result:
                return True
            cur.description  # noqa: B018
        elif name == "commit":
            conn.commit()
        elif name == "rollback":
            conn.rollback()
        elif name == "describe":
            cur.describe("select a from t1")
        else:
            conn.cursor().execute("insert into t1 (a) values (1)")
    except snowflake.connector.errors.DatabaseError as e:
        return e.errno == 250002 and e.sqlstate == "08003" and not isinstance(e, snowflake.connector.errors.ProgrammingError)
    return False


@ob(
    "C07.closed_connection",
    encodes=["fakesnow.conn.FakeSnowflakeConnection.close/commit/rollback/execute_string/cursor", "fakesnow.cursor.FakeSnowflakeCursor.execute/executemany/description/describe"],
    bounds="8 public entry points used after conn.close(), with or without a result set obtained before the close",
    timeout=(200, 400),
    stubs=["K4 vf.duckstub.Engine (closed connection raises duckdb.ConnectionException)"],
    carve="C07-write-pandas-leaks-engine-exceptions",
)
def closed_connection(ei: int, had_result: bool) -> bool:
    """
    pre: 0 <= ei < len(ENTRY)
    post: _
    """
    return done(fast.native(_closed, fast.pick(ei, len(ENTRY)), bool(fast.pick(had_result, 2))))


# ------------------------------------------------------------------ independence of what happened before (shared harness)
import obligations.shared_independence as _indep  # noqa: E402

_IND_PRIORS = (1, 2, 3)


@ob(
    "C07.a_failed_statement_changes_nothing_for_the_next",
    encodes=["fakesnow.cursor.FakeSnowflakeCursor.execute/_transform/_execute/description/fetch*", "fakesnow.conn / fakesnow.variables / fakesnow.transforms (any state kept between statements)"],
    bounds="prior activity: one of 3 failing statements (unknown table, undefined variable, object already exists); then one of " + str(len(_indep.SUBJECTS)) + " statements (queries, DML, DDL with metadata, COMMENT, "
    "DESCRIBE, SHOW, USE, SET, MERGE, seeded RANDOM, BEGIN, a nop_regexes match, two failing statements, TRUNCATE) on the same or another cursor, tuple or "
    "dict: SQL reaching the engine, rows, rowcount, description names, error, sqlstate, session context and the statement's own effect on catalog, "
    "metadata and variables equal those on a fresh identical session",
    timeout=(300, 600),
    stubs=["K1/K2/K6 vf.duckstub.Engine"],
    shards=(11, 11),
)
def independence(si: int, pk: int, as_dict: bool, same_cursor: bool) -> bool:
    """
    pre: 0 <= si < len(_indep.SUBJECTS) and 0 <= pk < len(_IND_PRIORS) and (SHARD < 0 or si % 11 == SHARD)
    post: _
    """
    from vf import fast as _f

    return done(_f.native(_indep.independent, _f.pick(si, len(_indep.SUBJECTS)), _IND_PRIORS[_f.pick(pk, len(_IND_PRIORS))], bool(_f.pick(as_dict, 2)), bool(_f.pick(same_cursor, 2))))

import obligations.C15  # noqa: E402,F401
from vf.registry import alias  # noqa: E402

alias("C07.undefined_variable_is_a_snowflake_error", "C15.undefined_reference_raises", "a reference to an undefined session variable in any letter case is a ProgrammingError raised before the engine sees the statement (never an engine-specific exception), and the statement changes nothing")

import obligations.C03  # noqa: E402,F401

alias("C07.no_current_database_only_when_there_is_none", "C03.one_step_preserves_context", "error 90105 / 90106 is raised exactly in sessions without a current database / schema - in every session state reachable by USE, incl. USE SCHEMA db.schema from a session that began without a database")
