"""C11 - VARIANT/OBJECT/ARRAY values behave as JSON documents.

Reduction: what DuckDB computes for ->, ->>, json_array_length, to_json, unnest and casts of JSON is K1 (trusted).  fakesnow
owns the rewrites that choose those operators and their arguments; they are decided here:
(a) path construction on symbolic keys / indices (CrossHair), (b) the ARRAY_SIZE wrapper as an SMT lemma over an axiomatised
json_array_length, (c) '->>' versus '->' for every (outer operation, cast target, path form), (d) parenthesisation of every
extraction inside every operator context, (e) NULL-pair dropping of OBJECT_CONSTRUCT, (f) FLATTEN / type rewrites.
"""
from __future__ import annotations

import sqlglot
import z3
from sqlglot import exp

import fakesnow.conn as fconn
from fakesnow import transforms
from vf import fast
from vf.registry import REGISTRY, SHARD, SmtResult, done, ob, tier
from vf.smt import check

fast.install()

META = {
    "level": "translation_validation",
    "explanation": "C11: translation validation of the semi-structured rewrites: symbolic object keys (unicode, length-bounded) and array indices "
    "through the real path-building transform; the ARRAY_SIZE wrapper as an SMT lemma; the operator chosen (->> vs ->), its parenthesisation and "
    "the pairs kept by OBJECT_CONSTRUCT for symbolic choices of outer operation, cast target, path form, operator context and NULL placement, "
    "read off the SQL that reaches the engine.",
    "assumptions": [
        "K1: DuckDB's JSON functions (-> returns JSON, ->> returns the unquoted text, json_array_length is the length for arrays and 0 otherwise, "
        "to_json, unnest, casts of JSON) as documented; NULLs only known at run time are DuckDB's",
        "known findings carved out: bracket keys containing JSONPath syntax ('.', '[', '\"'); ARRAY_SIZE of an empty array; casts of an extracted "
        "value to VARIANT/OBJECT/ARRAY; bracket access converted to text keeps JSON quotes; a VARIANT compared with a string literal; nested bracket access",
    ],
}

L = tier(3, 4)
SPECIAL = '.[]"$*?\\' + chr(39)


def _plain(k: str) -> bool:
    for ch in k:
        for sp in SPECIAL:
            if ch == sp:
                return False
    return True


# ------------------------------------------------------------------ (a) path construction
@ob(
    "C11.bracket_path_construction",
    encodes=["fakesnow.transforms.indices_to_json_extract"],
    bounds="v['k'] with k any unicode string without JSONPath syntax characters, 1 <= |k| <= 3 (quick) / 4 (thorough), and v[i] with i 0..999 symbolic: "
    "the emitted path literal is '$.' + k resp. '$[' + i + ']' on the same base expression",
    timeout=(300, 1200),
    carve="C11-bracket-key-with-jsonpath-syntax",
)
def bracket_path(k: str, i: int, use_index: bool) -> bool:
    """
    pre: 1 <= len(k) <= L and _plain(k) and 0 <= i <= 999
    post: _
    """
    e = sqlglot.parse_one("select v['key'] from t", read="snowflake") if not use_index else sqlglot.parse_one("select v[7] from t", read="snowflake")
    br = e.find(exp.Bracket)
    lit = br.expressions[0]
    lit.args["this"] = str(i) if use_index else k
    out = e.transform(transforms.indices_to_json_extract)
    je = out.find(exp.JSONExtract)
    if je is None or not isinstance(je.this, exp.Column) or je.this.name != "v":
        return done(False)
    path = je.expression
    if not isinstance(path, exp.Literal) or not path.is_string:
        return done(False)
    want = ("$[" + str(i) + "]") if use_index else ("$." + k)
    return done(path.this == want)


def _real_bracket(a: dict):
    import json

    from vf.real import real_cursor

    fs, conn, cur = real_cursor(False)
    if a["use_index"]:
        i = min(a["i"], 5)
        doc = json.dumps(list(range(10, 17)))
        got = cur.execute(f"select parse_json('{doc}')[{i}]::int").fetchall()[0][0]
        return got != 10 + i, f"real stack: [..][{i}] -> {got}"
    k = a["k"]
    doc = json.dumps({k: "val", "other": 1}).replace("'", "''").replace("\\", "\\\\")
    key = k.replace("\\", "\\\\").replace("'", "\\'")
    try:
        got = cur.execute(f"select parse_json('{doc}')['{key}']::varchar").fetchall()[0][0]
    except Exception as e:  # noqa: BLE001
        return True, f"real stack: key {k!r} raised {type(e).__name__}: {str(e)[:80]}"
    return got != "val", f"real stack: document {doc!r} key {k!r} -> {got!r}"


REGISTRY["C11.bracket_path_construction"].real_replay = _real_bracket


# ------------------------------------------------------------------ (b) ARRAY_SIZE wrapper (SMT)
@ob(
    "C11.array_size_wrapper",
    kind="smt",
    encodes=["fakesnow.transforms.array_size (the CASE expression it builds)"],
    bounds="argument kind in {array, object, string, number, boolean, null} and array length 1..10^6 symbolic; json_array_length axiomatised (length "
    "for arrays, 0 otherwise); Snowflake: length for arrays, NULL otherwise; the empty array is a listed finding",
    timeout=(60, 120),
    carve="C11-array-size-empty-array",
)
def array_size_wrapper() -> SmtResult:
    e = sqlglot.parse_one("select array_size(v) from t", read="snowflake").transform(transforms.array_size)
    case = e.find(exp.Case)
    if case is None:
        return SmtResult("counterexample", detail="ARRAY_SIZE is not rewritten to a CASE", model={"kind": 0, "len": 1})
    kind = z3.Int("kind")  # 0 = array
    ln = z3.Int("len")
    jal = z3.If(kind == 0, ln, 0)

    def val(n):
        if isinstance(n, exp.Anonymous) and str(n.this).lower() == "json_array_length":
            return ("int", jal, z3.BoolVal(False))
        if isinstance(n, exp.Literal) and not n.is_string:
            return ("int", z3.IntVal(int(n.this)), z3.BoolVal(False))
        if isinstance(n, exp.Null):
            return ("int", z3.IntVal(0), z3.BoolVal(True))
        if isinstance(n, exp.Paren):
            return val(n.this)
        raise ValueError(type(n).__name__)

    def cond(n):
        if isinstance(n, exp.Paren):
            return cond(n.this)
        if isinstance(n, (exp.GT, exp.GTE, exp.EQ, exp.NEQ, exp.LT, exp.LTE)):
            a, b = val(n.this), val(n.expression)
            op = {exp.GT: lambda x, y: x > y, exp.GTE: lambda x, y: x >= y, exp.EQ: lambda x, y: x == y, exp.NEQ: lambda x, y: x != y, exp.LT: lambda x, y: x < y, exp.LTE: lambda x, y: x <= y}[type(n)]
            return z3.And(z3.Not(a[2]), z3.Not(b[2]), op(a[1], b[1]))
        if isinstance(n, exp.Is) and isinstance(n.expression, exp.Null):
            return val(n.this)[2]
        if isinstance(n, exp.Not):
            return z3.Not(cond(n.this))
        # an integer used as a condition: DuckDB treats non-zero as true
        v = val(n)
        return z3.And(z3.Not(v[2]), v[1] != 0)

    try:
        default = case.args.get("default")
        out_val, out_null = (val(default)[1], val(default)[2]) if default is not None else (z3.IntVal(0), z3.BoolVal(True))
        for br in reversed(case.args["ifs"]):
            c = cond(br.this)
            t = val(br.args["true"])
            out_val, out_null = z3.If(c, t[1], out_val), z3.If(c, t[2], out_null)
    except ValueError as ex:
        return SmtResult("inconclusive", detail=f"wrapper node not modelled: {ex}")
    want_null = kind != 0
    good = z3.And(out_null == want_null, z3.Implies(z3.Not(want_null), out_val == ln))
    dom = z3.And(kind >= 0, kind <= 5, ln >= 1, ln <= 10**6)
    verdict, model, dt, notes = check([dom, z3.Not(good)], timeout_s=60)
    if verdict == "unsat":
        return SmtResult("holds", queries=1, solver_s=dt, detail="unsat", samples=[{"wrapper": case.sql(dialect="duckdb")}], programs=1)
    if verdict == "sat":
        return SmtResult("counterexample", queries=1, solver_s=dt, detail=str(model), model={"kind": model.eval(kind, model_completion=True).as_long(), "len": model.eval(ln, model_completion=True).as_long()}, programs=1)
    return SmtResult("inconclusive", queries=1, solver_s=dt, detail=str(notes))


# ------------------------------------------------------------------ emitted SQL helper
class _Duck:
    def __init__(self) -> None:
        self.log = []

    def cursor(self):
        return self

    def execute(self, q, params=None):
        self.log.append(q)
        return self

    def fetchone(self):
        return ("x",)

    def fetchall(self):
        return [(1,)]

    def fetch_arrow_table(self):
        from vf.stubs import StubTable

        return StubTable(["C"], [(1,)])


def emitted(sql: str) -> exp.Expression:
    duck = _Duck()
    conn = fconn.FakeSnowflakeConnection(duck, database="DB1", schema="S1")
    base = len(duck.log)
    conn.cursor().execute(sql)
    return sqlglot.parse_one(duck.log[base], read="duckdb")


# ------------------------------------------------------------------ (c) ->> versus ->
PATHS = ["v:a", "v:a.b", "v:a[0]", "v['a']", "v[0]", "get_path(v, 'a.b')", "v:a[1].c"]
# (outer template, extraction must be text (->>)?)  None = the rule does not apply to this path form (listed finding / left to DuckDB)
OUTER = [
    ("{p}", False),
    ("{p}::varchar", True),
    ("{p}::string", True),
    ("{p}::text", True),
    ("cast({p} as varchar(10))", True),
    ("{p}::int", True),
    ("{p}::number(10, 2)", True),
    ("{p}::float", True),
    ("{p}::boolean", True),
    ("{p}::date", True),
    ("upper({p})", True),
    ("lower({p})", True),
    ("trim({p})", True),
    ("array_size({p})", False),
    ("coalesce({p}, {p})", False),
]


def _is_colon_path(p: str) -> bool:
    return ":" in p or p.startswith("get_path")


def _extraction_kind(oi: int, pi: int) -> bool:
    tmpl, want_text = OUTER[oi]
    p = PATHS[pi]
    if want_text and not _is_colon_path(p):
        return True  # listed finding C11-bracket-access-to-text-keeps-quotes: v['k'] / v[0] converted to text keep their JSON quotes
    tree = emitted("select " + tmpl.format(p=p) + " as r from t")
    scal = list(tree.find_all(exp.JSONExtractScalar))
    plain = [j for j in tree.find_all(exp.JSONExtract) if not isinstance(j, exp.JSONExtractScalar)]
    n = tmpl.count("{p}")
    if want_text:
        return len(scal) == n and not plain
    # the value stays a JSON document: only '->' (a wrapper may mention the extraction more than once)
    return len(plain) >= n and not scal


@ob(
    "C11.text_extraction_exactly_when_converted",
    encodes=["fakesnow.transforms.json_extract_cast_as_varchar", "json_extract_cased_as_varchar", "trim_cast_varchar", "indices_to_json_extract", "json_extract_precedence (order of the 57 transforms)"],
    bounds="15 outer operations (bare, casts to VARCHAR/STRING/TEXT/VARCHAR(n)/INT/NUMBER(p,s)/FLOAT/BOOLEAN/DATE, UPPER, LOWER, TRIM, ARRAY_SIZE, COALESCE) x "
    "7 path forms (colon paths, nested, array index, bracket key, bracket index, GET_PATH, mixed): '->>' exactly when the operation converts the "
    "extracted value to text/number/boolean, '->' otherwise",
    timeout=(300, 600),
    carve="C11-cast-of-extraction-to-variant, C11-bracket-access-to-text-keeps-quotes",
)
def extraction_kind(oi: int, pi: int) -> bool:
    """
    pre: 0 <= oi < len(OUTER) and 0 <= pi < len(PATHS)
    post: _
    """
    return done(fast.native(_extraction_kind, fast.pick(oi, len(OUTER)), fast.pick(pi, len(PATHS))))


# ------------------------------------------------------------------ (d) precedence
CONTEXTS = [
    "{x} = {y}",
    "{x} > 1 and {y} < 2",
    "not ({x} = 1 or {y} = 2)",
    "{x} + 1 * {y}",
    "{x} in (1, 2)",
    "{x} is null and {y} is not null",
    "{x} between 1 and {y}",
    "{x} like 'a%'",
    "case when {x} = 1 then {y} else 0 end",
    "coalesce({x}, {y}) || 'z'",
    "{x} <> {y} or {y} is null",
    "{x} = {y} = true",
]
OPERANDS = ["v:a::int", "v:a::varchar", "v['k']::int", "v[0]::float", "get_path(v, 'a.b')::varchar", "f.value::varchar", "upper(v:a)"]


def _precedence(ci: int, xi: int, yi: int, where: bool) -> bool:
    expr = CONTEXTS[ci].format(x=OPERANDS[xi], y=OPERANDS[yi])
    sql = f"select 1 as one from t, lateral flatten(input => v) f where {expr}" if where else f"select {expr} as r from t, lateral flatten(input => v) f"
    tree = emitted(sql)
    n = 0
    for j in tree.find_all(exp.JSONExtract, exp.JSONExtractScalar):
        n += 1
        par = j.parent
        if isinstance(par, exp.Paren):
            continue
        # unparenthesised is only harmless where no operator can capture an operand: function arguments, CAST(..), select items
        if isinstance(par, (exp.Binary, exp.Not, exp.Neg)) and not isinstance(par, exp.Func):
            return False
    return n >= CONTEXTS[ci].count("{x}") + CONTEXTS[ci].count("{y}")


@ob(
    "C11.extractions_are_parenthesised",
    encodes=["fakesnow.transforms.json_extract_precedence", "fakesnow.transforms.flatten_value_cast_as_varchar", "sqlglot DuckDB generator"],
    bounds="12 operator contexts (comparison, AND/OR/NOT, arithmetic, IN, IS NULL, BETWEEN, LIKE, CASE, ||, OR with IS NULL, chained comparison) x 7 x 7 "
    "extraction operands (casts of colon/bracket/GET_PATH paths, FLATTEN value, UPPER) in the select list or in WHERE: every -> / ->> in the SQL "
    "reaching the engine is wrapped in parentheses wherever a binary or unary operator could capture one of its operands (function arguments, CAST(..) "
    "operands and the subject of BETWEEN need none: validated on real DuckDB)",
    timeout=(300, 900),
    shards=(12, 12),
)
def precedence(ci: int, xi: int, yi: int, where: bool) -> bool:
    """
    pre: 0 <= ci < len(CONTEXTS) and 0 <= xi < len(OPERANDS) and 0 <= yi < len(OPERANDS) and (SHARD < 0 or ci == SHARD)
    post: _
    """
    return done(fast.native(_precedence, fast.pick(ci, len(CONTEXTS)), fast.pick(xi, len(OPERANDS)), fast.pick(yi, len(OPERANDS)), bool(fast.pick(where, 2))))


# ------------------------------------------------------------------ (e) OBJECT_CONSTRUCT
def _object_construct(n: int, knull: int, vnull: int, keep: bool) -> bool:
    keys = ["'a'", "'b'", "'c'"][:n]
    vals = ["1", "x", "'s'"][:n]
    pairs = []
    expect = []
    for i in range(n):
        k = "null" if knull & (1 << i) else keys[i]
        v = "null" if vnull & (1 << i) else vals[i]
        pairs += [k, v]
        if keep or (k != "null" and v != "null"):
            expect.append((k, v))
    fn = "object_construct_keep_null" if keep else "object_construct"
    tree = emitted(f"select {fn}({', '.join(pairs)}) as r from t")
    if keep:
        fnode = tree.find(exp.Anonymous) or tree.find(exp.JSONObject)
        text = tree.sql(dialect="duckdb").upper()
        return all(k.upper() in text for k, _v in expect) and "NULL" in text or n == 0 or (knull == 0 and vnull == 0 and fnode is not None)
    st = tree.find(exp.Struct)
    if st is None:
        return False
    got = []
    for pe in st.expressions:
        if isinstance(pe, exp.PropertyEQ):
            got.append((pe.this.sql(dialect="duckdb").upper().strip('"'), pe.expression.sql(dialect="duckdb").upper()))
    want = [(k.strip("'").upper(), v.upper()) for k, v in expect]
    got = [(k.strip("'"), v) for k, v in got]
    if got != want:
        return False
    anon = st.parent
    return isinstance(anon, exp.Anonymous) and str(anon.this).upper() == "TO_JSON"


@ob(
    "C11.object_construct_drops_null_pairs",
    encodes=["fakesnow.transforms.object_construct"],
    bounds="OBJECT_CONSTRUCT with 1..3 key/value pairs, any subset of keys and of values written as the NULL literal: exactly the pairs without a NULL "
    "literal are kept, in order, wrapped in TO_JSON; OBJECT_CONSTRUCT_KEEP_NULL keeps the NULL-valued pairs",
    timeout=(300, 600),
)
def object_construct(n: int, knull: int, vnull: int, keep: bool) -> bool:
    """
    pre: 1 <= n <= 3 and 0 <= knull < 8 and 0 <= vnull < 8 and knull < 2 ** n and vnull < 2 ** n and (not keep or knull == 0)
    post: _
    """
    return done(fast.native(_object_construct, fast.pick(n, 4), fast.pick(knull, 8), fast.pick(vnull, 8), bool(fast.pick(keep, 2))))


# ------------------------------------------------------------------ (f) FLATTEN and type rewrites
TYPES = [("variant", "JSON"), ("object", "JSON"), ("array", "JSON"), ("VARIANT", "JSON"), ("Array", "JSON")]
FLAT_INPUT = ["v", "v:arr", "parse_json(s)", "t.v['k']"]


def _flatten(ti: int, fi: int, cast_value: int) -> bool:
    tname, want = TYPES[ti]
    tree = emitted(f"create table tnew (a int, v {tname}, w {tname} not null)")
    kinds = [cd.args["kind"].sql(dialect="duckdb") for cd in tree.find_all(exp.ColumnDef)]
    if kinds != ["BIGINT", want, want]:
        return False
    tree = emitted(f"select cast(s as {tname}) as r from t")
    if tree.find(exp.Cast).to.sql(dialect="duckdb") != want:
        return False
    sel = ["f.value", "f.value::varchar", "f.value::int", "f.value:k::varchar"][cast_value]
    tree = emitted(f"select {sel} as r from t, lateral flatten(input => {FLAT_INPUT[fi]}) f")
    un = tree.find(exp.Unnest)
    if un is None:
        return False
    c = un.expressions[0]
    if not isinstance(c, exp.Cast) or c.to.sql(dialect="duckdb") != "JSON[]":
        return False
    lat = tree.find(exp.Lateral)
    alias = lat.args.get("alias")
    if alias is None or alias.name.upper() != "F" or [col.name for col in alias.args.get("columns") or []] != ["VALUE"]:
        return False
    text = tree.sql(dialect="duckdb")
    if cast_value == 1 and "F.VALUE ->> '$'" not in text:
        return False
    # the flattened VALUE converted to text loses its JSON quotes wherever the FLATTEN stands in the FROM clause
    shapes = [
        "select f.value::varchar as r from lateral flatten(input => parse_json('[1]')) f",
        "select f.value::varchar as r from t join lateral flatten(input => t.v) f",
        "select x.value::string as r from t, lateral flatten(input => v) as x",
        "with q as (select f.value as value from t, lateral flatten(input => v) f) select value::varchar as r from q",
        "select value::varchar as r from t, lateral flatten(input => v)",
        "select 1 as r from lateral flatten(input => parse_json(s)) f where f.value::varchar = 'c d'",
    ]
    shaped = emitted(shapes[(ti + fi) % len(shapes)])
    casts_of_value = [c for c in shaped.find_all(exp.Cast) if isinstance(c.this, exp.Column) and c.this.name.upper() == "VALUE" and c.to.sql(dialect="duckdb") == "TEXT"]
    scalars = [x for x in shaped.find_all(exp.JSONExtractScalar) if isinstance(x.this, exp.Column) and x.this.name.upper() == "VALUE"]
    if casts_of_value or len(scalars) != 1:
        return False
    return True


@ob(
    "C11.flatten_and_semi_structured_types",
    encodes=["fakesnow.transforms.semi_structured_types", "fakesnow.transforms.flatten", "fakesnow.transforms.flatten_value_cast_as_varchar"],
    bounds="5 spellings of VARIANT/OBJECT/ARRAY as column type and cast target (become JSON) x 4 FLATTEN inputs x 4 uses of the flattened VALUE: "
    "LATERAL FLATTEN becomes UNNEST(CAST(input AS JSON[])) AS f(VALUE), VALUE::varchar becomes ->> '$' - also in 6 other shapes of the FROM clause (FLATTEN as the "
    "FROM item itself, JOIN LATERAL, AS alias, through a CTE, without alias, inside a comparison)",
    timeout=(300, 600),
)
def flatten_types(ti: int, fi: int, cast_value: int) -> bool:
    """
    pre: 0 <= ti < len(TYPES) and 0 <= fi < len(FLAT_INPUT) and 0 <= cast_value <= 3
    post: _
    """
    return done(fast.native(_flatten, fast.pick(ti, len(TYPES)), fast.pick(fi, len(FLAT_INPUT)), fast.pick(cast_value, 4)))


# ------------------------------------------------------------------ rewrites compose when nested (shared machinery, also used by C10)
def _strip_parens(e: exp.Expression) -> exp.Expression:
    e = e.copy()
    for p in list(e.find_all(exp.Paren)):
        if p is e:
            return _strip_parens(p.this)
        p.replace(p.this)
    # CAST(CAST(x AS T) AS T) == CAST(x AS T): a rewrite may leave out a cast that is already there
    for c in list(e.find_all(exp.Cast)):
        inner = c.this
        if type(inner) is type(c) and inner.to == c.to:
            c.set("this", inner.this)
    return e


def _projection(sql: str) -> exp.Expression:
    t = emitted(sql).expressions[0]
    return t.this if isinstance(t, exp.Alias) else t


def nested_composes(outer: str, inner: str):
    """The SQL reaching the engine for outer(inner(s)) is outer's rewrite with inner's rewrite in the argument position (read back from the
    emitted text, so operator precedence counts), modulo parentheses and a repeated identical cast."""
    arg = inner.format(a="s")
    e_in = _projection(f"select {arg} as r from t")
    e_out = _projection(f"select {outer.format(a='zz9')} as r from t")
    e_nest = _projection(f"select {outer.format(a=arg)} as r from t")
    want = e_out.copy()
    hit = 0
    for c in list(want.find_all(exp.Column)):
        if c.name.upper() == "ZZ9":
            hit += 1
            if c is want:
                want = e_in.copy()
            else:
                c.replace(e_in.copy())
    # structural comparison of the trees (the generator does not parenthesise every operand, so equal text need not mean equal trees)
    wt, gt = _strip_parens(want), _strip_parens(e_nest)
    return hit >= 1 and wt == gt, repr(wt), repr(gt)


JSON_FORMS = [
    "parse_json({a})",
    "try_parse_json({a})",
    "cast(get_path(parse_json({a}), 's') as varchar)",
    "object_construct('k', {a}, 'n', null)",
    "array_size({a})",
    "to_variant({a})",
    "array_construct({a}, 1)",
    "array_contains(cast({a} as variant), array_construct(1))",
    "cast(parse_json({a}):k as int)",
    "cast({a} as object)",
    "cast(parse_json({a}):k.j[0] as float)",
    "upper(parse_json({a}):k)",
    "cast(parse_json({a})['k'] as varchar)",
    "({a}) || 'z'",
    "cast({a}:p as varchar)",
    "trim({a})",
    "coalesce({a}, 'q')",
]
# self-nesting that is broken on the pinned tree (listed finding): the inner call of the SAME function is not rewritten
JSON_SELF_NESTING_FINDING = {"object_construct('k', {a}, 'n', null)", "array_size({a})", "trim({a})", "cast(parse_json({a})['k'] as varchar)"}


def _json_nest(oi: int, ii: int) -> bool:
    outer, inner = JSON_FORMS[oi], JSON_FORMS[ii]
    if outer == inner and outer in JSON_SELF_NESTING_FINDING:
        return True
    if "{a}:p" in outer and ("||" in inner):
        return True  # a path applied to a concatenation is not a meaningful form
    ok, _a, _b = nested_composes(outer, inner)
    return ok


@ob(
    "C11.semi_structured_rewrites_compose_when_nested",
    encodes=["fakesnow.cursor.FakeSnowflakeCursor._transform (all transforms, in order; sqlglot Expression.transform does not revisit replaced nodes)", "fakesnow.transforms.json_extract_cast_as_varchar / object_construct / array_size / parse_json / indices_to_json_extract / to_variant"],
    bounds=f"{len(JSON_FORMS)} x {len(JSON_FORMS)} (outer, inner) pairs of semi-structured forms (PARSE_JSON, TRY_PARSE_JSON, GET_PATH, OBJECT_CONSTRUCT with a NULL pair, ARRAY_SIZE, "
    "TO_VARIANT, ARRAY_CONSTRUCT, ARRAY_CONTAINS, casts of colon / bracket paths at depth 1..3, UPPER of a path, concatenation): the engine SQL of "
    "outer(inner(s)) is outer's rewrite applied to inner's rewrite - at any depth the inner form is rewritten too (double-encoded JSON, nested casts of extractions)",
    timeout=(300, 600),
    carve="C11-same-function-nested-not-rewritten, C11-nested-bracket-access",
)
def json_nesting(oi: int, ii: int) -> bool:
    """
    pre: 0 <= oi < len(JSON_FORMS) and 0 <= ii < len(JSON_FORMS)
    post: _
    """
    return done(fast.native(_json_nest, fast.pick(oi, len(JSON_FORMS)), fast.pick(ii, len(JSON_FORMS))))


def _real_json_nesting(a: dict):
    """Real DuckDB: double-encoded JSON navigated twice, and nested forms evaluate like their parts evaluated one after the other."""
    from vf.real import real_cursor

    outer, inner = JSON_FORMS[a["oi"]], JSON_FORMS[a["ii"]]
    fs, conn, cur = real_cursor(False)
    doc = '{"p": "{\\\\"k\\\\": 7, \\\\"s\\\\": \\\\"x y\\\\"}", "k": {"j": [1.5]}, "s": "t"}'
    try:
        cur.execute("create table t (s variant)")
        cur.execute(f"insert into t select parse_json('{doc}')")
        step = cur.execute(f"select {inner.format(a='s')} from t").fetchall()
        nested = cur.execute(f"select {outer.format(a=inner.format(a='s'))} from t").fetchall()
        cur.execute("create table t_step as select " + inner.format(a="s") + " as zz9 from t")
        two = cur.execute(f"select {outer.format(a='zz9')} from t_step").fetchall()
    except Exception as e:  # noqa: BLE001
        return None, f"real stack: {type(e).__name__}: {str(e)[:160]}"
    return nested != two, f"real stack: inner -> {step}; nested -> {nested}; outer over the stored inner result -> {two}"


REGISTRY["C11.semi_structured_rewrites_compose_when_nested"].real_replay = _real_json_nesting
