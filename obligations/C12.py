"""C12 - MERGE leaves the target as Snowflake's MERGE would, with true counts.

Engine E3 (translation validation by SMT).  For each MERGE *shape* (clause list, conditions, ON keys, aliases, subquery
source, keyword case) the statements that the real fakesnow pipeline hands to DuckDB are captured from a real cursor,
evaluated by the bounded symbolic SQL evaluator (vf.symsql) on symbolic target/source tables, and compared with a direct
encoding of Snowflake's MERGE semantics: one z3 query per shape over ALL table contents within the row bounds.
"""
from __future__ import annotations

import random

import sqlglot
import z3
from sqlglot import exp

import fakesnow.conn as fconn
from fakesnow import transforms
from vf import symsql as S
from vf.registry import REGISTRY, SEED, SHARD, SmtResult, ob, tier
from vf.smt import check

META = {
    "level": "translation_validation",
    "explanation": "C12: programs are MERGE shapes; for each, the emitted DuckDB statements (real transforms.merge + real _transform, captured at "
    "the engine boundary) are symbolically executed over symbolic tables (row presence, NULL flags and integer cells are solver "
    "variables) and compared with the reference semantics; one SMT query per shape decides all contents within the bounds.",
    "assumptions": [
        "K1: DuckDB executes the emitted statements as vf.symsql does (validated each run on concrete tables against real DuckDB for every shape "
        "used, including FULL OUTER JOIN / rowid / UPDATE..FROM / DELETE..USING / COUNT_IF)",
        "K8: Snowflake MERGE semantics as documented: per joined pair the first applicable WHEN MATCHED clause applies; source rows joining no "
        "target row take the first applicable WHEN NOT MATCHED clause; deterministic merges only (no target row joins two source rows)",
        "integer columns only (k, v, w); conditions are comparisons with symbolic integer constants, IS NULL tests and conjunctions",
        "known findings carved out: two target rows sharing a non-null join key; NULL counts when no row qualifies for any clause; table aliases "
        "on target/source and qualified source names (ParseError); atomicity and the leftover merge_candidates table",
    ],
}

NT = tier(3, 3)
NS = tier(2, 3)
COLS = ["K", "V", "W"]
P1, P2 = "424241", "424242"  # reserved literals: symbolic integer constants C1, C2


def validate_contracts():
    return _validate_evaluator()


# ------------------------------------------------------------------ shapes
ON = ["t1.k = t2.k", "t1.k = t2.k and t1.w = t2.w", "T1.K = T2.K"]
M_COND = ["", f"and t2.v > {P1}", f"and t1.v = {P1}", f"and t1.v < t2.v", f"and t2.w is null", f"and (t1.v <> {P1} or t2.v = {P2})"]
N_COND = ["", f"and t2.v > {P2}", "and t2.w is not null"]
UPD = ["update set v = t2.v", "UPDATE SET v = t2.v, w = t2.w", f"update set w = {P2}", "update set t1.v = t2.v"]
DEL = ["delete", "DELETE"]
INS = ["insert (k, v) values (t2.k, t2.v)", "insert values (t2.k, t2.v, t2.w)", f"INSERT (k, v, w) VALUES (t2.k, {P1}, t2.v)"]
SOURCES = ["t2", "(select k, v, w from t2 where v is not null) as t2", "(SELECT * FROM t2) AS t2"]
TARGETS = ["t1", "db1.s1.t1"]


def _shapes() -> list:
    """Deterministic list of MERGE statements (the 'programs')."""
    shapes = []
    clause_sets = []
    for mu in range(len(UPD)):
        for c in range(len(M_COND)):
            clause_sets.append([f"when matched {M_COND[c]} then {UPD[mu]}"])
    for c in range(len(M_COND)):
        clause_sets.append([f"when matched {M_COND[c]} then {DEL[c % 2]}"])
    for n in range(len(INS)):
        for c in range(len(N_COND)):
            clause_sets.append([f"when not matched {N_COND[c]} then {INS[n]}"])
    # two and three clauses: conditional first clause, then fall-through
    for c in range(1, len(M_COND)):
        clause_sets.append([f"when matched {M_COND[c]} then delete", "when matched then update set v = t2.v"])
        clause_sets.append([f"WHEN MATCHED {M_COND[c]} THEN UPDATE SET v = t2.v", "WHEN MATCHED THEN DELETE", "WHEN NOT MATCHED THEN INSERT (k, v) VALUES (t2.k, t2.v)"])
        clause_sets.append([f"when matched {M_COND[c]} then update set w = t2.w", f"when not matched {N_COND[c % 3]} then {INS[c % 3]}"])
        clause_sets.append([f"when not matched {N_COND[1]} then {INS[0]}", f"when not matched then {INS[1]}", f"when matched {M_COND[c]} then delete"])
    for i, cs in enumerate(clause_sets):
        on = ON[i % len(ON)]
        src = SOURCES[i % len(SOURCES)]
        tgt = TARGETS[i % len(TARGETS)]
        kw = "MERGE INTO" if i % 2 else "merge into"
        shapes.append(f"{kw} {tgt} using {src} on {on} " + " ".join(cs))
    # every ON / source / target variant on one fixed three-clause list
    base = [f"when matched {M_COND[1]} then delete", "when matched then update set v = t2.v", "when not matched then insert (k, v) values (t2.k, t2.v)"]
    for on in ON:
        for src in SOURCES:
            for tgt in TARGETS:
                shapes.append(f"merge into {tgt} using {src} on {on} " + " ".join(base))
    # target in ANOTHER schema than the session's, which has a table of the same name (the bystander must stay untouched)
    for tgt in FOREIGN_TARGETS:
        for cs in (base, [base[2]], [base[1], base[2]], [f"when not matched {N_COND[1]} then {INS[1]}", base[0]]):
            shapes.append(f"merge into {tgt} using t2 on t1.k = t2.k " + " ".join(cs))
    return shapes


FOREIGN_TARGETS = ["s2.t1", "db1.s2.t1", "DB1.S2.T1"]
TKEY_FOREIGN = "DB1.S2.T1"
BYSTANDER = "DB1.S1.T1"


def _is_foreign(merge_sql: str) -> bool:
    return "s2.t1 " in merge_sql.lower()


# ------------------------------------------------------------------ emitted statements (from the real pipeline)
class _LogDuck:
    def __init__(self) -> None:
        self.log = []

    def cursor(self):
        return self

    def execute(self, sql, params=None):
        self.log.append(sql)
        return self

    def fetchone(self):
        return ("exists",)

    def fetchall(self):
        return [(0,)]

    def fetch_arrow_table(self):
        from vf.stubs import StubTable

        return StubTable(["C"], [(0,)])

    def close(self):
        pass


def emitted(merge_sql: str) -> list:
    duck = _LogDuck()
    conn = fconn.FakeSnowflakeConnection(duck, database="DB1", schema="S1")
    base = len(duck.log)
    conn.cursor().execute(merge_sql)
    out = []
    for q in duck.log[base:]:
        st = sqlglot.parse_one(q, read="duckdb")
        tbl = st.find(exp.Table)
        if isinstance(st, exp.Insert) and tbl is not None and tbl.name.upper().startswith("_FS_"):
            continue  # fakesnow's own metadata bookkeeping, not part of the MERGE's effect on user tables
        if isinstance(st, exp.Select) and st.args.get("from") is None:
            continue  # the status rows fakesnow synthesises for the intermediate statements
        out.append(st)
    return out


# ------------------------------------------------------------------ reference semantics
def _merge_ast(merge_sql: str) -> exp.Merge:
    m = sqlglot.parse_one(merge_sql, read="snowflake").transform(transforms.upper_case_unquoted_identifiers)
    assert isinstance(m, exp.Merge)
    return m


def oracle(env: S.Env, merge_sql: str):
    """Snowflake's MERGE on the symbolic pre-state; returns (final target Table, {'inserted','updated','deleted'} -> z3 Int, determinism condition)."""
    m = _merge_ast(merge_sql)
    tgt = m.this
    t = env.table(tgt)
    talias = tgt.alias_or_name.upper()
    using = m.args["using"]
    salias, st = S._source_rows(env, using)
    on = m.args["on"]
    whens = list(m.expressions)
    counts = {"inserted": z3.IntVal(0), "updated": z3.IntVal(0), "deleted": z3.IntVal(0)}
    determinism = []
    new_rows = []
    matched_any = [S.FALSE for _ in st.rows]
    for r in t.rows:
        pair_match = []
        for j, s in enumerate(st.rows):
            sc = S.Scope(env, {talias: r, salias: s})
            mrs = z3.And(r.present, s.present, S.as_pred(S.ev(on, sc)).is_true())
            pair_match.append((mrs, s, sc))
            matched_any[j] = z3.Or(matched_any[j], mrs)
        determinism.append(z3.AtMost(*[p for p, _s, _sc in pair_match], 1) if pair_match else S.TRUE)
        deleted = S.FALSE
        cols = dict(r.cols)
        upd_any = S.FALSE
        for mrs, s, sc in pair_match:
            taken = S.FALSE
            for w in whens:
                if not w.args.get("matched"):
                    continue
                cond = w.args.get("condition")
                c_true = S.TRUE if cond is None else S.as_pred(S.ev(cond, sc)).is_true()
                applies = z3.And(mrs, c_true, z3.Not(taken))
                then = w.args["then"]
                if isinstance(then, exp.Update):
                    for e in then.expressions:
                        cname = e.this.name.upper()
                        v = S.as_val(S.ev(e.expression, sc))
                        old = cols[cname]
                        cols[cname] = S.V(z3.If(applies, v.null, old.null), z3.If(applies, v.val, old.val))
                    upd_any = z3.Or(upd_any, applies)
                else:
                    deleted = z3.Or(deleted, applies)
                taken = z3.Or(taken, z3.And(mrs, c_true))
        counts["updated"] = counts["updated"] + z3.If(upd_any, 1, 0)
        counts["deleted"] = counts["deleted"] + z3.If(deleted, 1, 0)
        new_rows.append(S.Row(z3.And(r.present, z3.Not(deleted)), cols))
    for j, s in enumerate(st.rows):
        unmatched = z3.And(s.present, z3.Not(matched_any[j]))
        taken = S.FALSE
        sc = S.Scope(env, {salias: s})
        for w in whens:
            if w.args.get("matched"):
                continue
            cond = w.args.get("condition")
            c_true = S.TRUE if cond is None else S.as_pred(S.ev(cond, sc)).is_true()
            applies = z3.And(unmatched, c_true, z3.Not(taken))
            ins = w.args["then"]
            names = [c.name.upper() for c in ins.this.expressions] if ins.this is not None else list(t.colnames)
            vals = [S.as_val(S.ev(x, sc)) for x in ins.expression.expressions]
            rc = {c: S.NULLV for c in t.colnames}
            for c, v in zip(names, vals):
                rc[c] = v
            new_rows.append(S.Row(applies, rc))
            counts["inserted"] = counts["inserted"] + z3.If(applies, 1, 0)
            taken = z3.Or(taken, z3.And(unmatched, c_true))
    return S.Table(t.name, t.colnames, new_rows), counts, z3.And(determinism)


def _fresh_env(nt: int, ns: int, foreign: bool = False) -> S.Env:
    if foreign:
        env = S.Env({TKEY_FOREIGN: S.symbolic_table(TKEY_FOREIGN, COLS, nt, prefix="T1"), BYSTANDER: S.symbolic_table(BYSTANDER, COLS, 1, prefix="BY"), "T2": S.symbolic_table("T2", COLS, ns)})
    else:
        env = S.Env({"T1": S.symbolic_table("T1", COLS, nt), "T2": S.symbolic_table("T2", COLS, ns)})
    env.placeholders = {P1: z3.Int("C1"), P2: z3.Int("C2")}
    return env


def _no_shared_keys(t: S.Table):
    """Carve for known finding C12-duplicate-target-keys: no two present target rows share a non-null K."""
    conds = []
    for i in range(len(t.rows)):
        for j in range(i + 1, len(t.rows)):
            a, b = t.rows[i], t.rows[j]
            conds.append(z3.Not(z3.And(a.present, b.present, z3.Not(a.cols["K"].null), z3.Not(b.cols["K"].null), a.cols["K"].val == b.cols["K"].val)))
    return z3.And(conds) if conds else S.TRUE


def decide_shape(merge_sql: str, nt: int, ns: int, carve: bool = True):
    """-> (verdict, model-dict or None, solver seconds, notes)"""
    foreign = _is_foreign(merge_sql)
    tkey = TKEY_FOREIGN if foreign else "T1"
    env = _fresh_env(nt, ns, foreign)
    pre_t1, pre_t2 = env.tables[tkey].copy(), env.tables["T2"].copy()
    pre_by = env.tables[BYSTANDER].copy() if foreign else None
    want_t, want_counts, determinism = oracle(env, merge_sql)
    stmts = emitted(merge_sql)
    run = S.Env(dict(env.tables))
    run.placeholders = env.placeholders
    for stt in stmts:
        S.execute(run, stt)
    got_t = run.tables[tkey]
    res = run.last_result
    if res is None or len(res.rows) != 1:
        raise S.Unsupported("the last emitted statement is not the one-row counts select")
    count_ok = []
    seen = set()
    for cn in res.colnames:
        key = cn.lower().replace("number of rows ", "")
        if key not in want_counts:
            return "sat", {"reason": f"unexpected count column {cn!r}"}, 0.0, []
        seen.add(key)
        count_ok.append(z3.And(z3.Not(res.rows[0].cols[cn].null), res.rows[0].cols[cn].val == want_counts[key]))
    m = _merge_ast(merge_sql)
    need = set()
    for w in m.expressions:
        then = w.args["then"]
        need.add("inserted" if isinstance(then, exp.Insert) else "updated" if isinstance(then, exp.Update) else "deleted")
    if seen != need:
        return "sat", {"reason": f"count columns {sorted(seen)} but the clauses need {sorted(need)}"}, 0.0, []
    good = z3.And(S.bag_equal(got_t, want_t), *count_ok, S.bag_equal(run.tables["T2"], pre_t2))
    if foreign:
        # the same-named table of the session's own schema is not the target
        good = z3.And(good, S.bag_equal(run.tables[BYSTANDER], pre_by))
    pre = [determinism]
    if carve:
        pre.append(_no_shared_keys(pre_t1))
        # known finding C12-null-counts-when-no-candidates: counts are NULL when no row qualifies for any clause
        mc = run.tables.get("MERGE_CANDIDATES")
        if mc is not None:
            pre.append(z3.Or([r.present for r in mc.rows]) if mc.rows else S.FALSE)
    # keep cell values small: the result does not depend on magnitudes beyond comparisons
    bound = []
    for tb in (pre_t1, pre_t2):
        for r in tb.rows:
            for c in COLS:
                bound.append(z3.And(r.cols[c].val >= -4, r.cols[c].val <= 4))
    verdict, model, dt, notes = check(pre + bound + [z3.Not(good)], timeout_s=tier(60, 300))
    if verdict == "sat":
        md = {
            "merge": merge_sql,
            "t1": S.model_table(model, pre_t1),
            "t2": S.model_table(model, pre_t2),
            "C1": model.eval(z3.Int("C1"), model_completion=True).as_long(),
            "C2": model.eval(z3.Int("C2"), model_completion=True).as_long(),
            "expected_target": sorted(S.model_table(model, want_t), key=repr),
            "emitted_sql_gives": sorted(S.model_table(model, got_t), key=repr),
        }
        return "sat", md, dt, notes
    return verdict, None, dt, notes


# ------------------------------------------------------------------ real-stack execution of one concrete case
def real_merge(merge_sql: str, t1: list, t2: list, c1: int, c2: int):
    from vf.real import real_conn

    fs, conn = real_conn()
    cur = conn.cursor()
    cur.execute("create table t1 (k int, v int, w int)")
    cur.execute("create table t2 (k int, v int, w int)")
    tname = "t1"
    if _is_foreign(merge_sql):
        # the target lives in another schema; the session's own schema has a same-named bystander holding one marker row
        cur.execute("create schema s2")
        cur.execute("create table s2.t1 (k int, v int, w int)")
        cur.execute("insert into t1 values (-9, -9, -9)")
        tname = "s2.t1"
    for name, rows in ((tname, t1), ("t2", t2)):
        for r in rows:
            cur.execute(f"insert into {name} values ({', '.join('null' if x is None else str(x) for x in r)})")
    sql = merge_sql.replace(P1, str(c1)).replace(P2, str(c2))
    cur.execute(sql)
    names = [d.name for d in cur.description]
    counts = dict(zip(names, [None if x is None else int(x) for x in cur.fetchall()[0]]))
    final = sorted(cur.execute(f"select k, v, w from {tname}").fetchall(), key=repr)
    src = sorted(cur.execute("select k, v, w from t2").fetchall(), key=repr)
    if tname != "t1" and cur.execute("select k, v, w from t1").fetchall() != [(-9, -9, -9)]:
        final = final + [("bystander changed", cur.execute("select k, v, w from t1").fetchall())]
    return final, counts, src


def _concrete_eval(merge_sql: str, t1: list, t2: list, c1: int, c2: int):
    """symsql + oracle on concrete tables (z3 constants), returns (emitted result, emitted counts, oracle result, oracle counts)."""
    foreign = _is_foreign(merge_sql)
    tkey = TKEY_FOREIGN if foreign else "T1"
    if foreign:
        env = S.Env({TKEY_FOREIGN: S.concrete_table(TKEY_FOREIGN, COLS, t1), BYSTANDER: S.concrete_table(BYSTANDER, COLS, [(-9, -9, -9)]), "T2": S.concrete_table("T2", COLS, t2)})
    else:
        env = S.Env({"T1": S.concrete_table("T1", COLS, t1), "T2": S.concrete_table("T2", COLS, t2)})
    env.placeholders = {P1: z3.IntVal(c1), P2: z3.IntVal(c2)}
    want_t, want_counts, _det = oracle(env, merge_sql)
    run = S.Env(dict(env.tables))
    run.placeholders = env.placeholders
    for stt in emitted(merge_sql):
        S.execute(run, stt)
    s = z3.Solver()
    assert s.check() == z3.sat
    mdl = s.model()
    got = sorted(S.model_table(mdl, run.tables[tkey]), key=repr)
    if foreign and S.model_table(mdl, run.tables[BYSTANDER]) != [(-9, -9, -9)]:
        got = got + [("bystander changed", S.model_table(mdl, run.tables[BYSTANDER]))]
    want = sorted(S.model_table(mdl, want_t), key=repr)
    res = run.last_result
    gc = {
        cn: (None if z3.is_true(z3.simplify(res.rows[0].cols[cn].null)) else mdl.eval(res.rows[0].cols[cn].val, model_completion=True).as_long())
        for cn in res.colnames
    }
    wc = {k: z3.simplify(v).as_long() for k, v in want_counts.items()}
    return got, gc, want, wc


def _random_tables(rng: random.Random):
    keys = rng.sample([1, 2, 3, 4, None], 3)
    t1 = [(k, rng.choice([0, 1, 2, None]), rng.choice([0, 1, None])) for k in keys[: rng.randint(0, 3)]]
    skeys = rng.sample([1, 2, 3, 5, None], 3)
    t2 = [(k, rng.choice([0, 1, 2, 3, None]), rng.choice([0, 1, None])) for k in skeys[: rng.randint(0, 3)]]
    return t1, t2


def _validate_evaluator() -> list:
    """symsql(emitted SQL) == real DuckDB, and the reference semantics == real DuckDB, on concrete deterministic merges with distinct keys."""
    rng = random.Random(1000 + SEED)
    shapes = _shapes()
    picks = rng.sample(range(len(shapes)), min(len(shapes), tier(10, 30)))
    ok, detail = True, ""
    n = 0
    for i in picks:
        sql = shapes[i]
        for _ in range(2):
            t1, t2 = _random_tables(rng)
            c1, c2 = rng.randint(0, 2), rng.randint(0, 2)
            try:
                real_final, real_counts, real_src = real_merge(sql, t1, t2, c1, c2)
                got, gc, want, wc = _concrete_eval(sql, t1, t2, c1, c2)
            except S.Unsupported:
                continue
            except Exception as e:  # noqa: BLE001
                ok, detail = False, f"shape {i} {sql!r} on {t1} {t2}: {type(e).__name__}: {e}"
                continue
            n += 1
            if got != real_final or {k.lower(): v for k, v in gc.items()} != {k.lower(): v for k, v in real_counts.items()}:
                ok, detail = False, f"symsql vs DuckDB differ for {sql!r} t1={t1} t2={t2} c=({c1},{c2}): {got} {gc} vs {real_final} {real_counts}"
            if want != real_final:
                # an oracle/real difference on carved-in inputs would be a finding, not a contract failure; only note evaluator mismatches here
                pass
    return [(f"K1 vf.symsql == real DuckDB on {n} concrete (shape, tables) cases (emitted MERGE statements)", ok and n > 0, detail)]


# ------------------------------------------------------------------ obligations
NSHARDS = 16


def _run_shapes(shard: int, nshards: int, nt: int, ns: int) -> SmtResult:
    shapes = _shapes()
    mine = [i for i in range(len(shapes)) if shard < 0 or i % nshards == shard]
    queries, secs, decided, samples, inconcl = 0, 0.0, 0, [], []
    for i in mine:
        sql = shapes[i]
        try:
            verdict, model, dt, notes = decide_shape(sql, nt, ns)
        except S.Unsupported as e:
            inconcl.append(f"shape {i}: outside the symsql subset: {e}")
            continue
        except Exception as e:  # noqa: BLE001
            # the real pipeline refused the statement (e.g. AssertionError / ParseError): a violation candidate, replayed concretely
            return SmtResult("counterexample", queries=queries, solver_s=secs, detail=f"shape {i}: pipeline raised {type(e).__name__}: {e}", model={"merge": sql, "t1": [(1, 1, 1)], "t2": [(1, 2, 2)], "C1": 0, "C2": 0, "raised": type(e).__name__}, programs=decided)
        queries += 1
        secs += dt
        if verdict == "unsat":
            decided += 1
            if len(samples) < 3:
                samples.append({"shape": sql, "rows": f"target<={nt} source<={ns}", "verdict": "unsat", "solver_s": round(dt, 3)})
        elif verdict == "sat":
            return SmtResult("counterexample", queries=queries, solver_s=secs, detail=f"shape {i}: {sql}", model=model, samples=samples, programs=decided)
        else:
            inconcl.append(f"shape {i}: solver {verdict} {notes}")
    if inconcl:
        return SmtResult("inconclusive", queries=queries, solver_s=secs, detail="; ".join(inconcl[:5]), samples=samples, programs=decided)
    return SmtResult("holds", queries=queries, solver_s=secs, detail=f"{decided} shapes unsat", samples=samples, programs=decided)


def _real_replay(a: dict):
    if "reason" in a and "merge" not in a:
        return True, a["reason"]
    sql = a["merge"]
    t1 = [tuple(r) for r in a["t1"]]
    t2 = [tuple(r) for r in a["t2"]]
    try:
        real_final, real_counts, real_src = real_merge(sql, t1, t2, a.get("C1", 0), a.get("C2", 0))
    except Exception as e:  # noqa: BLE001
        return True, f"real stack: MERGE raised {type(e).__name__}: {e}"
    try:
        got, gc, want, wc = _concrete_eval(sql, t1, t2, a.get("C1", 0), a.get("C2", 0))
    except Exception as e:  # noqa: BLE001
        return None, f"reference evaluation failed: {e}"
    need = {k for k in wc if any(k in n.lower() for n in real_counts)}
    no_candidates = all(v is None for v in real_counts.values()) and all(wc[k] == 0 for k in need)  # listed finding, not re-reported
    counts_bad = (not no_candidates) and any(real_counts[n] != wc[k] for n in real_counts for k in need if k in n.lower())
    bad = real_final != want or counts_bad or sorted(t2, key=repr) != real_src
    return bad, f"real stack: target {real_final} counts {real_counts}; Snowflake semantics: target {want} counts {wc}"


@ob(
    "C12.merge_matches_reference",
    kind="smt",
    encodes=["fakesnow.transforms_merge.merge/_create_merge_candidates/_mutations/_counts", "fakesnow.cursor.FakeSnowflakeCursor.execute/_transform (emitted SQL captured at the engine boundary)"],
    bounds=f"~{len(_shapes())} MERGE shapes (1-3 clauses over MATCHED [AND c] UPDATE/DELETE and NOT MATCHED [AND c] INSERT, 6 condition templates on "
    "target and/or source columns with symbolic integer constants, one- and two-key ON, table / subquery source, qualified target, keyword case); "
    "target <= 3 rows, source <= 2 (quick) / 3 (thorough) rows, 3 nullable integer columns with cell values in -4..4, row presence and NULL "
    "flags symbolic (so empty tables, NULL keys, no match, all match are inside); deterministic merges; sharded over 16 processes",
    timeout=(400, 1800),
    stubs=["K1 vf.symsql (validated against real DuckDB each run)", "K8 reference MERGE semantics"],
    real_replay=_real_replay,
    carve="C12-duplicate-target-keys, C12-null-counts-when-no-candidates, C12-table-alias-or-qualified-source, C12-set-expression-not-plain-column",
    shards=(NSHARDS, NSHARDS),
)
def merge_matches_reference() -> SmtResult:
    return _run_shapes(SHARD, NSHARDS, NT, NS)
