"""C20 - patch() and the CLI switch the fake on and off cleanly.

Engine E1: real fakesnow.cli.split + the real argparse parser + real cli.main (runpy and patch replaced by
recorders) on symbolic argv; real fakesnow.patch() generator with the real unittest.mock over a symbolic
choice of extra targets, exit mode and failure point.
"""
from __future__ import annotations

import contextlib
import sys
import types

import snowflake.connector
import snowflake.connector.pandas_tools

import fakesnow
import fakesnow.cli as cli
from vf.registry import SHARD, done, ob, tier

META = {
    "level": "other",
    "explanation": "C20: argv strings are symbolic (any unicode within the length bound); option spellings, target kind and "
    "number of target arguments are symbolic choices; patch() target lists, exit modes and failure points are symbolic choices.",
    "assumptions": [
        "K10: argparse and unittest.mock are run for real; runpy.run_module/run_path and (for the CLI obligation) fakesnow.patch are "
        "recorders that observe sys.argv and db_path at the moment the target would start",
        "option values and targets do not start with '-' and are non-empty, and a value attached to a short option does not start "
        "with '=' (argparse's own rules); argparse prefix abbreviations (--db, --mod) are outside the claim",
    ],
}

L = tier(2, 3)  # max length of each symbolic argv string


def _good(s: str) -> bool:
    return len(s) >= 1 and len(s) <= L and not s.startswith("-")


def _run_main(argv: list):
    """Run the real cli.main with recorders; returns (db_path seen by patch, sys.argv seen by the target, kind, target)."""
    seen = {}

    @contextlib.contextmanager
    def fake_patch(*a, **k):
        seen["db_path"] = k.get("db_path")
        seen["patched"] = True
        yield None

    def run_module(module, run_name=None, alter_sys=False):
        seen["kind"] = "module"
        seen["target"] = module
        seen["argv"] = list(sys.argv)
        seen["run_name"] = run_name

    def run_path(path, run_name=None):
        seen["kind"] = "path"
        seen["target"] = path
        seen["argv"] = list(sys.argv)
        seen["run_name"] = run_name

    orig_fs, orig_runpy, orig_argv, orig_path = cli.fakesnow, cli.runpy, sys.argv, list(sys.path)
    cli.fakesnow = types.SimpleNamespace(patch=fake_patch)
    cli.runpy = types.SimpleNamespace(run_module=run_module, run_path=run_path)
    try:
        rc = cli.main(argv)
    finally:
        cli.fakesnow, cli.runpy, sys.argv = orig_fs, orig_runpy, orig_argv
        sys.path[:] = orig_path
    seen["rc"] = rc
    return seen


@ob(
    "C20.cli_hands_over_exact_args",
    encodes=["fakesnow.cli.split", "fakesnow.cli.arg_parser", "fakesnow.cli.main", "argparse.ArgumentParser.parse_args (real)"],
    bounds="argv = [db option in one of 5 spellings: absent | -d V | --db_path V | --db_path=V | -dV] + [target in one of 5 spellings: "
    "PATH | -m M | --module M | --module=M | -mM] + 0..2 target arguments; V, target and target arguments are symbolic strings "
    "(any unicode, length <= 2 quick / 3 thorough; target arguments may equal fakesnow's own flags)",
    timeout=(300, 1200),
    stubs=["runpy recorder", "fakesnow.patch recorder"],
    shards=(5, 5),
)
def cli_args(dform: int, v: str, tform: int, t: str, nt: int, a1: str, a2: str) -> bool:
    """
    pre: 0 <= dform <= 4 and 0 <= tform <= 4 and (SHARD < 0 or dform == SHARD) and 0 <= nt <= 2
    pre: _good(v) and _good(t) and len(a1) <= L and len(a2) <= L
    pre: (dform != 4 or not v.startswith("=")) and (tform != 4 or not t.startswith("="))
    post: _
    """
    argv = []
    if dform == 1:
        argv += ["-d", v]
    elif dform == 2:
        argv += ["--db_path", v]
    elif dform == 3:
        argv += ["--db_path=" + v]
    elif dform == 4:
        argv += ["-d" + v]
    if tform == 0:
        argv += [t]
    elif tform == 1:
        argv += ["-m", t]
    elif tform == 2:
        argv += ["--module", t]
    elif tform == 3:
        argv += ["--module=" + t]
    else:
        argv += ["-m" + t]
    targs = [a1, a2][:nt]
    argv += targs
    seen = _run_main(argv)
    if seen.get("rc") != 0 or not seen.get("patched"):
        return done(False)
    if seen.get("db_path") != (v if dform else None):
        return done(False)
    if seen.get("kind") != ("path" if tform == 0 else "module") or seen.get("target") != t:
        return done(False)
    return done(seen.get("argv") == [t] + targs and seen.get("run_name") == "__main__")


@ob(
    "C20.cli_no_target_shows_usage",
    encodes=["fakesnow.cli.split", "fakesnow.cli.main"],
    bounds="argv = [] or one db option in 4 spellings with symbolic V (length <= 2/3) and no target",
    timeout=(120, 300),
    stubs=["runpy recorder", "fakesnow.patch recorder"],
)
def cli_usage(dform: int, v: str) -> bool:
    """
    pre: 0 <= dform <= 4 and _good(v) and (dform != 4 or not v.startswith("="))
    post: _
    """
    argv = []
    if dform == 1:
        argv += ["-d", v]
    elif dform == 2:
        argv += ["--db_path", v]
    elif dform == 3:
        argv += ["--db_path=" + v]
    elif dform == 4:
        argv += ["-d" + v]
    import io

    buf = io.StringIO()
    with contextlib.redirect_stdout(buf):
        seen = _run_main(argv)
    return done(seen.get("rc") == 42 and "kind" not in seen and seen.get("db_path") == (v if dform else None))


# ------------------------------------------------------------------ patch()
TARGETS = [
    "obligations.vfmods.froma.connect",  # from-import target (valid)
    "obligations.vfmods.froma.write_pandas",  # from-import target (valid)
    "obligations.vfmods.lazyb.connect",  # module not imported yet (valid)
    "no.such.module.fn",  # missing module
    "obligations.vfmods.froma.nothing",  # missing attribute
    "obligations.vfmods.froma.helper",  # not a snowflake function
]
VALID = (0, 1, 2)


class _Boom(Exception):
    pass


def _originals():
    import obligations.vfmods.froma as froma

    return {
        "snowflake.connector.connect": snowflake.connector.connect,
        "snowflake.connector.pandas_tools.write_pandas": snowflake.connector.pandas_tools.write_pandas,
        "froma.connect": froma.connect,
        "froma.write_pandas": froma.write_pandas,
        "froma.helper": froma.helper,
    }


def _current():
    import obligations.vfmods.froma as froma

    return {
        "snowflake.connector.connect": snowflake.connector.connect,
        "snowflake.connector.pandas_tools.write_pandas": snowflake.connector.pandas_tools.write_pandas,
        "froma.connect": froma.connect,
        "froma.write_pandas": froma.write_pandas,
        "froma.helper": froma.helper,
    }


def _patch_scenario(t1: int, t2: int, nextra: int, mode: int, as_str: bool, nested: bool) -> bool:
    import unittest.mock as mock

    import duckdb

    import obligations.vfmods.froma as froma

    sys.modules.pop("obligations.vfmods.lazyb", None)
    orig = _originals()
    if any(isinstance(v, mock.MagicMock) for v in orig.values()):
        return False  # a previous scenario leaked a mock: the harness itself would be unsound
    extra = [TARGETS[t1], TARGETS[t2]][:nextra]
    arg = extra[0] if (as_str and nextra == 1) else extra
    bad = [i for i in (t1, t2)[:nextra] if i not in VALID]
    instances = []
    real_fs_cls = fakesnow.FakeSnow

    def recording_fs(*a, **k):
        fs = real_fs_cls(*a, **k)
        instances.append(fs)
        return fs

    fakesnow.FakeSnow = recording_fs
    raised = None
    inside_ok = True
    try:
        try:
            with fakesnow.patch(arg):
                # every standard and valid extra target is the fake
                if not isinstance(snowflake.connector.connect, mock.MagicMock):
                    inside_ok = False
                if not isinstance(snowflake.connector.pandas_tools.write_pandas, mock.MagicMock):
                    inside_ok = False
                c = snowflake.connector.connect(database="d", schema="s")
                if type(c).__name__ != "FakeSnowflakeConnection":
                    inside_ok = False
                for i in (t1, t2)[:nextra]:
                    if i == 0 and type(froma.connect()).__name__ != "FakeSnowflakeConnection":
                        inside_ok = False
                    if i == 2:
                        lazyb = sys.modules.get("obligations.vfmods.lazyb")
                        if lazyb is None or type(lazyb.connect()).__name__ != "FakeSnowflakeConnection":
                            inside_ok = False
                if nested:
                    try:
                        with fakesnow.patch():
                            inside_ok = False  # nested patching must be refused
                    except AssertionError:
                        pass
                    if not isinstance(snowflake.connector.connect, mock.MagicMock):
                        inside_ok = False  # refused "without damage"
                if mode == 1:
                    raise _Boom()
        except _Boom:
            raised = "boom"
        except (AssertionError, ImportError, AttributeError) as e:
            raised = type(e).__name__
    finally:
        fakesnow.FakeSnow = real_fs_cls
    if not inside_ok:
        return False
    if bad and raised in (None, "boom"):
        return False  # a bad target must make patch() fail
    if not bad and raised not in (None, "boom"):
        return False
    if not bad and (raised == "boom") != (mode == 1):
        return False
    # every target is the original object again
    if _current() != orig:
        return False
    # known finding C20-lazy-import-keeps-mock: a module imported by patch() itself keeps the mock it bound at import.
    # That one post-exit identity is carved out; everything else about such targets (mocked inside, standard targets and
    # other extra targets restored, connection closed, re-entry) is still required.
    sys.modules.pop("obligations.vfmods.lazyb", None)
    # the instance's connection is closed
    for fs in instances:
        try:
            fs.duck_conn.execute("select 1")
            return False
        except duckdb.ConnectionException:
            pass
    # patch() can be entered again
    with fakesnow.patch():
        if not isinstance(snowflake.connector.connect, mock.MagicMock):
            return False
    return _current() == orig


@ob(
    "C20.patch_restores_everything",
    encodes=["fakesnow.patch (generator, ExitStack, re-entry guard)", "fakesnow.instance.FakeSnow.__init__"],
    bounds="extra targets: 0..2 drawn by symbolic index from {from-import connect, from-import write_pandas, not-yet-imported module, "
    "missing module, missing attribute, non-snowflake function}, given as list or bare string; exit mode normal | exception in body | "
    "set-up failure at the bad target; with and without a nested patch() attempt; followed by a second entry",
    timeout=(300, 600),
    stubs=["real unittest.mock, real DuckDB (everything concrete per path)"],
    carve="C20-lazy-import-keeps-mock",
    shards=(6, 6),
)
def patch_restores(t1: int, t2: int, nextra: int, mode: int, as_str: bool, nested: bool) -> bool:
    """
    pre: 0 <= t1 <= 5 and 0 <= t2 <= 5 and 0 <= nextra <= 2 and 0 <= mode <= 1 and (SHARD < 0 or t1 == SHARD)
    post: _
    """
    from vf import fast

    # no symbolic value flows into patch(): the scenario is a concrete computation per explored choice
    args = [fast.pick(t1, 6), fast.pick(t2, 6), fast.pick(nextra, 3), fast.pick(mode, 2), bool(fast.pick(as_str, 2)), bool(fast.pick(nested, 2))]
    return done(fast.native(_patch_scenario, *args))
