"""C13 - transactions are atomic, isolated between connections, and sticky to theirs.

Atomicity and isolation themselves are DuckDB's (contract K3).  What fakesnow owns, and what is decided here (E1):
(i) every connect() gets its own DuckDB connection and all cursors of one fake connection share it (invariant R),
(ii) every statement - and nothing else, in particular no hidden BEGIN/COMMIT/ROLLBACK - reaches exactly that
connection (routing lemma), (iii) COMMIT/ROLLBACK without an open transaction become the success row.
Given R and the routing lemma, atomicity and visibility for every statement-level interleaving are K3.
"""
from __future__ import annotations

import snowflake.connector.errors

from vf import fast
from vf.duckstub import validate_engine
from vf.registry import REGISTRY, SHARD, done, ob, tier
from vf.session import instance, std_engine

fast.install()

META = {
    "level": "model_checking",
    "explanation": "C13: bounded symbolic model checking of one step of the (connections x cursors x transaction flags) machine: which "
    "connection and cursor acts, the statement, and the per-connection transaction flags of the pre-state are symbolic; the structural "
    "invariant R is established for symbolic connect/cursor orders.",
    "assumptions": [
        "K3 DuckDB: one transaction per connection (cursor() = new connection), snapshot isolation, COMMIT/ROLLBACK without a transaction "
        "raise TransactionException with the two messages fakesnow matches (validated against real DuckDB at start-up)",
        "BEGIN inside an open transaction is outside the claim (DuckDB refuses it, Snowflake starts a scoped transaction)",
    ],
}

STMTS = ["begin", "commit", "rollback", "insert", "select", "failing", "conn.commit", "conn.rollback", "description", "create_comment", "update", "executemany", "failing_executemany", "failing_execute_string", "write_pandas"]
FAILING = ("failing", "failing_executemany", "failing_execute_string")
TX_WORDS = ("BEGIN", "COMMIT", "ROLLBACK", "START")


def validate_contracts():
    return validate_engine()


def _tx_calls(calls: list) -> list:
    return [c.strip().split()[0].upper() for c in calls if isinstance(c, str) and c.strip() and c.strip().split()[0].upper() in TX_WORDS]


HIST = ["fresh", "open transaction", "rolled a transaction back earlier", "committed a transaction earlier"]


def _history(curs_of_session, h: int) -> None:
    """Bring a session into one of the pre-state classes through the public API."""
    if h == 1:
        curs_of_session[0].execute("begin")
        curs_of_session[1].execute("insert into t2 values (100)")
    elif h == 2:
        curs_of_session[1].execute("begin")
        curs_of_session[0].execute("insert into t2 values (55)")
        curs_of_session[1].execute("rollback")
    elif h == 3:
        curs_of_session[0].execute("begin")
        curs_of_session[0].execute("insert into t2 values (56)")
        curs_of_session[1].execute("commit")


def _step(a_h: int, b_h: int, who: int, which_cur: int, si: int) -> bool:
    eng = std_engine()
    fs = instance(eng)
    A = fs.connect(database="db1", schema="s1")
    B = fs.connect(database="db1", schema="s1")
    conns = [A, B]
    curs = [[A.cursor(), A.cursor()], [B.cursor(), B.cursor()]]
    a_tx, b_tx = a_h == 1, b_h == 1
    _history(curs[0], a_h)
    _history(curs[1], b_h)
    # R: exactly two engine connections carry the two sessions, and they are different
    active = [s for s in eng.stubs if s.calls and any("T2" in str(c).upper() or "BEGIN" in str(c).upper() for c in s.calls)]
    stubs_by_tx = [s for s in eng.stubs if s.in_tx]
    if len(stubs_by_tx) != int(a_tx) + int(b_tx):
        return False
    del active
    snap = [(s.id, len(s.calls), s.in_tx, s.setting) for s in eng.stubs]
    nstubs = len(eng.stubs)
    w0 = len(eng.writes)
    stmt = STMTS[si]
    conn, cur = conns[who], curs[who][which_cur]
    in_tx0 = [a_tx, b_tx][who]
    err = None
    rows = None
    try:
        if stmt == "begin":
            cur.execute("begin")
            rows = cur.fetchall()
        elif stmt == "commit":
            cur.execute("COMMIT")
            rows = cur.fetchall()
        elif stmt == "rollback":
            cur.execute("rollback")
            rows = cur.fetchall()
        elif stmt == "insert":
            cur.execute("insert into t2 values (1)")
        elif stmt == "update":
            cur.execute("update t2 set a = 5 where a = 1")
        elif stmt == "executemany":
            cur.executemany("insert into t2 values (%s)", [(1,), (2,)])
        elif stmt == "select":
            cur.execute("select a from t2")
            cur.fetchall()
        elif stmt == "failing":
            cur.execute("select a from nosuch")
        elif stmt == "failing_executemany":
            cur.executemany("insert into nosuch values (%s)", [(1,), (2,)])
        elif stmt == "failing_execute_string":
            list(conn.execute_string("insert into t2 values (7); select a from nosuch; insert into t2 values (8)"))
        elif stmt == "conn.commit":
            conn.commit()
        elif stmt == "conn.rollback":
            conn.rollback()
        elif stmt == "description":
            cur.execute("select a from t2")
            cur.description  # noqa: B018
        elif stmt == "create_comment":
            cur.execute("create table tc (a int, b varchar(5)) comment = 'x'")
        elif stmt == "write_pandas":
            import pandas as pd

            import fakesnow.pandas_tools as fpt

            fpt.write_pandas(conn, pd.DataFrame({"A": [41, 42]}), "T2")
    except snowflake.connector.errors.ProgrammingError as e:
        err = e
    if (err is not None) != (stmt in FAILING):
        return False
    # ---- routing: only the acting session's engine connection received calls (new throw-away connections, e.g. for
    # description, may appear but must not carry transaction statements or writes of their own transaction)
    mine = None
    for (sid, ncalls, was_tx, setting), s in zip(snap, eng.stubs[:nstubs]):
        if len(s.calls) != ncalls:
            if mine is not None:
                return False  # two pre-existing engine connections were touched
            mine = (s, ncalls, was_tx)
        elif s.in_tx != was_tx or s.setting != setting:
            return False
    if mine is None:
        # outside a transaction a bulk load through a throw-away engine connection autocommits exactly like one on the session's own
        # connection (not observable); inside one it escapes the transaction
        return stmt == "write_pandas" and not in_tx0 and not any(_tx_calls(x.calls) or x.in_tx for x in eng.stubs[nstubs:])
    s, ncalls, was_tx = mine
    if was_tx != in_tx0:
        return False  # the statement went to an engine connection in the other session's transaction state
    new_calls = s.calls[ncalls:]
    for extra in eng.stubs[nstubs:]:
        if _tx_calls(extra.calls) or extra.in_tx:
            return False
    # ---- no hidden transaction control that could end or start the USER's transaction: inside an open transaction only the
    # statement's own COMMIT/ROLLBACK may reach the engine; outside one, any internal BEGIN must be closed again (checked through
    # the flag below) - an internal BEGIN..COMMIT pair around a batch is not observable and not flagged
    want_tx = {"begin": ["BEGIN"], "commit": ["COMMIT"], "rollback": ["ROLLBACK"], "conn.commit": ["COMMIT"], "conn.rollback": ["ROLLBACK"]}.get(stmt, [])
    seen_tx = _tx_calls(new_calls)
    if want_tx and seen_tx != want_tx:
        return False
    if not want_tx and in_tx0 and any(w in ("COMMIT", "ROLLBACK") for w in seen_tx):
        return False
    # ---- transaction flag afterwards
    if stmt == "begin":
        want_flag = True
    elif stmt in ("commit", "rollback", "conn.commit", "conn.rollback"):
        want_flag = False
    else:
        want_flag = in_tx0
    if s.in_tx != want_flag:
        return False
    # ---- COMMIT / ROLLBACK succeed with the status row, with or without an open transaction
    if stmt in ("begin", "commit", "rollback") and rows != [("Statement executed successfully.",)]:
        return False
    # ---- writes carry the transaction state of their own session
    for w in eng.writes[w0:]:
        if w[0] != s.id and w[0] < nstubs:
            return False
        if w[0] >= nstubs and in_tx0:
            return False  # a write through a throw-away engine connection is outside the session's open transaction (and its isolation)
        if w[0] == s.id and in_tx0 and not w[3]:
            return False  # a write of a session inside a transaction escaped that transaction
    return True


@ob(
    "C13.statement_routing_one_step",
    encodes=["fakesnow.instance.FakeSnow.connect", "fakesnow.conn.FakeSnowflakeConnection.cursor/commit/rollback", "fakesnow.cursor.FakeSnowflakeCursor.execute/_execute/executemany/description"],
    bounds="two sessions x two cursors each; pre-state: each session fresh | inside a transaction | after a rolled-back transaction | after a committed "
    "transaction (all reached through the public API, through different cursors); step: "
    "session, cursor and one of 15 statements (BEGIN, COMMIT, ROLLBACK, INSERT, UPDATE, executemany, SELECT, a failing execute / executemany / execute_string, conn.commit(), "
    "conn.rollback(), reading description, CREATE TABLE with comment and VARCHAR length, write_pandas): every write goes through the session's own engine connection",
    timeout=(300, 600),
    stubs=["K3 vf.duckstub.Engine (per-connection transaction flag, call log per engine connection)"],
    shards=(15, 15),
)
def routing(a_h: int, b_h: int, who: int, which_cur: int, si: int) -> bool:
    """
    pre: 0 <= a_h <= 3 and 0 <= b_h <= 3 and 0 <= who <= 1 and 0 <= which_cur <= 1 and 0 <= si < len(STMTS) and (SHARD < 0 or si == SHARD)
    pre: not (si == 0 and ((who == 0 and a_h == 1) or (who == 1 and b_h == 1)))
    post: _
    """
    P = fast.pick
    return done(fast.native(_step, P(a_h, 4), P(b_h, 4), P(who, 2), P(which_cur, 2), P(si, len(STMTS))))


def _real_routing(a: dict):
    """Real stack: the same scenario; observe isolation through DuckDB itself."""
    from fakesnow.instance import FakeSnow

    fs = FakeSnow()
    A = fs.connect(database="db1", schema="s1")
    B = fs.connect(database="db1", schema="s1")
    boot = A.cursor()
    boot.execute("create table t2 (a int)")
    curs = [[A.cursor(), A.cursor()], [B.cursor(), B.cursor()]]
    problems = []
    a = dict(a)
    a["a_tx"], a["b_tx"] = a["a_h"] == 1, a["b_h"] == 1
    _history(curs[0], a["a_h"])
    _history(curs[1], a["b_h"])
    stmt = STMTS[a["si"]]
    who, wc = a["who"], a["which_cur"]
    cur, conn = curs[who][wc], [A, B][who]
    try:
        if stmt in ("begin", "commit", "rollback"):
            cur.execute(stmt)
            if cur.fetchall() != [("Statement executed successfully.",)]:
                problems.append(f"{stmt} did not return the status row")
        elif stmt == "insert":
            cur.execute("insert into t2 values (1)")
        elif stmt == "update":
            cur.execute("update t2 set a = 5 where a = 1")
        elif stmt == "executemany":
            cur.executemany("insert into t2 values (%s)", [(1,), (2,)])
        elif stmt == "select":
            cur.execute("select a from t2").fetchall()
        elif stmt == "failing":
            try:
                cur.execute("select a from nosuch")
            except snowflake.connector.errors.ProgrammingError:
                pass
        elif stmt == "failing_executemany":
            try:
                cur.executemany("insert into nosuch values (%s)", [(1,), (2,)])
            except snowflake.connector.errors.ProgrammingError:
                pass
        elif stmt == "failing_execute_string":
            try:
                list(conn.execute_string("insert into t2 values (7); select a from nosuch; insert into t2 values (8)"))
            except snowflake.connector.errors.ProgrammingError:
                pass
        elif stmt == "conn.commit":
            conn.commit()
        elif stmt == "conn.rollback":
            conn.rollback()
        elif stmt == "description":
            cur.execute("select a from t2")
            cur.description  # noqa: B018
        elif stmt == "create_comment":
            cur.execute("create table tc (a int, b varchar(5)) comment = 'x'")
        elif stmt == "write_pandas":
            import pandas as pd

            import fakesnow.pandas_tools as fpt

            fpt.write_pandas(conn, pd.DataFrame({"A": [41, 42]}), "T2")
            in_tx = [a["a_tx"], a["b_tx"]][who]
            mine = [r[0] for r in curs[who][1 - wc].execute("select a from t2").fetchall()]
            other = [r[0] for r in curs[1 - who][0].execute("select a from t2").fetchall()]
            if 41 not in mine:
                problems.append(f"write_pandas rows are not visible to the loading session itself: {mine}")
            if in_tx and 41 in other:
                problems.append(f"write_pandas inside an open transaction is visible to the other session before COMMIT: {other}")
    except Exception as e:  # noqa: BLE001
        problems.append(f"{stmt} raised {type(e).__name__}: {e}")
    # A's uncommitted row must be visible to A's cursors and invisible to B while A's transaction is open
    a_open = a["a_tx"] and not (who == 0 and stmt in ("commit", "rollback", "conn.commit", "conn.rollback"))
    try:
        seen_a = [r[0] for r in curs[0][1].execute("select a from t2").fetchall()]
        seen_b = [r[0] for r in curs[1][0].execute("select a from t2").fetchall()]
        if a["a_tx"] and a_open and (100 not in seen_a or 100 in seen_b):
            problems.append(f"isolation: A sees {seen_a}, B sees {seen_b} while A's transaction is open")
        if a["a_tx"] and who == 0 and stmt in ("rollback", "conn.rollback") and (100 in seen_a or 100 in seen_b):
            problems.append("rolled back row still visible")
        if a["a_tx"] and who == 0 and stmt in ("commit", "conn.commit") and 100 not in seen_b:
            problems.append("committed row not visible to the other session")
    except Exception as e:  # noqa: BLE001
        problems.append(f"follow-up select raised {type(e).__name__}: {e}")
    # a BEGIN must really open a transaction, whatever the session did before: a row written now and rolled back must disappear
    if stmt == "begin" and not problems:
        try:
            curs[who][1 - wc].execute("insert into t2 values (888)")
            curs[who][wc].execute("rollback")
            left = [r[0] for r in curs[1 - who][0].execute("select a from t2").fetchall()]
            if 888 in left:
                problems.append("BEGIN did not open a transaction: a row written after it survived ROLLBACK")
        except Exception as e:  # noqa: BLE001
            problems.append(f"transaction probe after BEGIN raised {type(e).__name__}: {e}")
    # a session that was inside a transaction and did not end it itself must still be inside it: a row written now
    # and rolled back must disappear
    for idx, was_tx in enumerate((a["a_tx"], a["b_tx"])):
        ended = who == idx and stmt in ("commit", "rollback", "conn.commit", "conn.rollback")
        if was_tx and not ended:
            try:
                curs[idx][0].execute("insert into t2 values (777)")
                curs[idx][1].execute("rollback")
                left = [r[0] for r in curs[1 - idx][0].execute("select a from t2").fetchall()]
                if 777 in left:
                    problems.append(f"session {'AB'[idx]}: its transaction was ended behind its back (a row written after {stmt} survived ROLLBACK)")
            except Exception as e:  # noqa: BLE001
                problems.append(f"transaction probe raised {type(e).__name__}: {e}")
    if stmt == "create_comment" and [a["a_tx"], a["b_tx"]][who]:
        # the transaction was rolled back by the probe above: the table is gone, and so must be everything recorded about it
        try:
            left = boot.execute("select ext_table_name, comment from db1.information_schema._fs_tables_ext where ext_table_name = 'TC'").fetchall()
            left += boot.execute("select ext_table_name, ext_column_name from db1.information_schema._fs_columns_ext where ext_table_name = 'TC'").fetchall()
            if left:
                problems.append(f"metadata of a table created in a rolled-back transaction survived the ROLLBACK: {left}")
        except Exception as e:  # noqa: BLE001
            problems.append(f"metadata probe raised {type(e).__name__}: {e}")
    if not problems and stmt in ("commit", "rollback", "conn.commit", "conn.rollback") and not [a["a_tx"], a["b_tx"]][who]:
        return None, "COMMIT/ROLLBACK without an open transaction: which of the two reached DuckDB is not observable on the real stack"
    return bool(problems), "; ".join(problems) or "real stack: routing/isolation as expected"


REGISTRY["C13.statement_routing_one_step"].real_replay = _real_routing


def _structure(ops: list) -> bool:
    """R for an arbitrary order of connect() and cursor() calls: op 0 = connect, op k>0 = cursor on connection (k-1) mod #connections."""
    eng = std_engine()
    fs = instance(eng)
    conns, curs = [], []
    for o in ops:
        if o == 0 or not conns:
            conns.append(fs.connect(database="db1", schema="s1"))
        else:
            ci = (o - 1) % len(conns)
            curs.append((ci, conns[ci].cursor()))
    # each session begins a transaction through its first cursor (or a fresh one); every cursor of that session must
    # then write inside that transaction, and no other session may
    for ci, conn in enumerate(conns):
        before = [s.in_tx for s in eng.stubs]
        conn.cursor().execute("begin")
        flipped = [i for i, s in enumerate(eng.stubs) if s.in_tx and not before[i]]
        if len(flipped) != 1:
            return False
        sid = eng.stubs[flipped[0]].id
        for cj, c in curs:
            w0 = len(eng.writes)
            c.execute("insert into t2 values (1)")
            w = eng.writes[w0:]
            if len(w) != 1:
                return False
            if (w[0][0] == sid) != (cj == ci):
                return False
            if cj == ci and not w[0][3]:
                return False
        conn.cursor().execute("rollback")
        if any(s.in_tx for s in eng.stubs):
            return False
    return True


@ob(
    "C13.sessions_own_their_engine_connection",
    encodes=["fakesnow.instance.FakeSnow.connect", "fakesnow.conn.FakeSnowflakeConnection.cursor"],
    bounds="any order of up to 5 (quick) / 6 (thorough) connect() and cursor() calls over up to 3 sessions: a BEGIN issued through one "
    "session puts exactly the writes of all of that session's cursors - and of no other session's - inside its transaction",
    timeout=(300, 900),
    stubs=["K3 vf.duckstub.Engine"],
    shards=(16, 16),
)
def structure(o0: int, o1: int, o2: int, o3: int, o4: int, o5: int, n: int) -> bool:
    """
    pre: 1 <= n <= NOPS and all(0 <= o <= 3 for o in (o0, o1, o2, o3, o4, o5))
    pre: o0 == 0 and (SHARD < 0 or (o1 == SHARD % 4 and (SHARD < 4 or o2 == SHARD // 4)))
    pre: (n >= 6 or o5 == 0) and (n >= 5 or o4 == 0) and (n >= 4 or o3 == 0) and (n >= 3 or o2 == 0) and (n >= 2 or o1 == 0)
    post: _
    """
    P = fast.pick
    ops = [P(o, 4) for o in (o0, o1, o2, o3, o4, o5)][: P(n, 7)]
    if sum(1 for o in ops if o == 0) > 3:
        return done(True)
    return done(fast.native(_structure, ops))


NOPS = tier(5, 6)


# ------------------------------------------------------------------ independence of what happened before (shared harness)
import obligations.shared_independence as _indep  # noqa: E402

_IND_PRIORS = (12, 13)


@ob(
    "C13.finished_transactions_leave_nothing_behind",
    encodes=["fakesnow.cursor.FakeSnowflakeCursor.execute/_transform/_execute/description/fetch*", "fakesnow.conn / fakesnow.variables / fakesnow.transforms (any state kept between statements)"],
    bounds="prior activity: a transaction that was rolled back / committed earlier on this connection; then one of " + str(len(_indep.SUBJECTS)) + " statements (queries, DML, DDL with metadata, COMMENT, "
    "DESCRIBE, SHOW, USE, SET, MERGE, seeded RANDOM, BEGIN, a nop_regexes match, two failing statements, TRUNCATE) on the same or another cursor, tuple or "
    "dict: SQL reaching the engine, rows, rowcount, description names, error, sqlstate, session context and the statement's own effect on catalog, "
    "metadata and variables equal those on a fresh identical session",
    timeout=(300, 600),
    stubs=["K1/K2/K6 vf.duckstub.Engine"],
    shards=(11, 11),
)
def independence(si: int, pk: int, as_dict: bool, same_cursor: bool) -> bool:
    """
    pre: 0 <= si < len(_indep.SUBJECTS) and 0 <= pk < len(_IND_PRIORS) and (SHARD < 0 or si % 11 == SHARD)
    post: _
    """
    from vf import fast as _f

    return done(_f.native(_indep.independent, _f.pick(si, len(_indep.SUBJECTS)), _IND_PRIORS[_f.pick(pk, len(_IND_PRIORS))], bool(_f.pick(as_dict, 2)), bool(_f.pick(same_cursor, 2))))

import obligations.C19  # noqa: E402,F401
from vf.registry import alias  # noqa: E402

alias("C13.refused_commit_is_reported", "C19.refused_commit_is_reported", "atomicity: when the engine refuses a COMMIT (and rolls back), the session is told - never 'Statement executed successfully.'")

import obligations.C14  # noqa: E402,F401

alias("C13.a_new_session_is_outside_a_transaction", "C14.connect_ladder", "whatever connect() had to create (database, schema, metadata objects), the session it returns has no open transaction: its first statement is committed at once and BEGIN / ROLLBACK mean what they say")
