"""C06 - cursor.description matches the result of every executed statement.

Engine E1: real types.describe_as_rowtype / describe_as_result_metadata on symbolic DuckDB type strings; real
execute + description / describe() against the stub engine for every statement kind and at a symbolic point of
the fetch sequence.
"""
from __future__ import annotations

import snowflake.connector
from snowflake.connector.constants import FIELD_NAME_TO_ID
from snowflake.connector.cursor import DictCursor

import fakesnow.types as ftypes
from vf import fast, rematch
from vf.duckstub import validate_engine
from vf.registry import REGISTRY, SHARD, done, ob, tier
from vf.session import instance, std_engine
from vf.stubs import StubTable

fast.install()
ftypes.re = rematch  # K10: the DECIMAL(p,s) pattern is interpreted by the reference matcher on symbolic type strings

META = {
    "level": "other",
    "explanation": "C06: DuckDB column-type strings are symbolic (type tag by index over the set of types DuckDB reports for fakesnow's "
    "column types and common expressions, DECIMAL precision/scale as symbolic integers, column names as symbolic strings); statement "
    "kind, bound parameters and the point of the fetch sequence at which description is read are symbolic choices.",
    "assumptions": [
        "K6: DuckDB's DESCRIBE answers one row (name, type, ...) per result column of a query or table and refuses anything else; "
        "the set R of type names is obtained from real DuckDB at start-up (that enumeration only builds the set)",
        "known finding carved out: result types INTERVAL, UUID, unsigned integers, LIST/STRUCT/MAP have no Snowflake mapping",
        "K10 vf.rematch == re (validated at start-up)",
    ],
}

# DuckDB type -> (snowflake type, precision, scale, length) that the connector's metadata must carry
ORACLE = {
    "BIGINT": ("FIXED", 38, 0, None),
    "INTEGER": ("FIXED", 38, 0, None),
    "HUGEINT": ("FIXED", 38, 0, None),
    "DOUBLE": ("REAL", None, None, None),
    "VARCHAR": ("TEXT", None, None, 16777216),
    "BOOLEAN": ("BOOLEAN", None, None, None),
    "DATE": ("DATE", None, None, None),
    "TIME": ("TIME", 0, 9, None),
    "TIMESTAMP": ("TIMESTAMP_NTZ", 0, 9, None),
    "TIMESTAMP_NS": ("TIMESTAMP_NTZ", 0, 9, None),
    "TIMESTAMP WITH TIME ZONE": ("TIMESTAMP_TZ", 0, 9, None),
    "BLOB": ("BINARY", None, None, 8388608),
    "JSON": ("VARIANT", None, None, None),
}
TAGS = sorted(ORACLE)
UNMAPPED_KNOWN = ("INTERVAL", "UUID", "UBIGINT", "UINTEGER", "USMALLINT", "UTINYINT", "UHUGEINT")


def _reachable_types() -> list:
    """Type names real DuckDB reports (DESCRIBE) for every column type fakesnow creates and for common expressions."""
    from vf.real import real_conn

    fs, conn = real_conn()
    cur = conn.cursor()
    cur.execute(
        "create table t (a int, b varchar, c timestamp_ntz, d date, e float, f number(10,2), g boolean, h variant, i binary, j time, "
        "k timestamp_tz, l number, m bigint, n smallint, o double, p text, q object, r array, s timestamp, u decimal(38,0), v char(3), w real)"
    )
    exprs = [
        "*", "count(*)", "sum(a)", "avg(a)", "sum(e)", "sum(f)", "min(b)", "max(c)", "a + 1", "a * 2", "a / 2", "a * 1.5", "f * f", "e * 2",
        "a::varchar", "b::int", "a::float", "a::number(5,1)", "a::boolean", "d::timestamp", "c::date", "length(b)", "upper(b)", "b || 'x'",
        "coalesce(a, 0)", "case when g then 1 else 0 end", "a > 1", "h:x", "h:x::varchar", "to_json(h)", "current_timestamp", "current_date",
        "datediff(day, d, d)", "dateadd(day, 1, d)", "dateadd(day, 1, c)", "row_number() over (order by a)", "null", "1.5", "1e0", "'x'", "true",
        "12345678901234567890", "array_agg(a)", "object_construct('a', 1)", "parse_json('{}')", "listagg(b)", "sha2(b)", "random()", "hash(a)",
        "c - c", "uuid()", "i", "j", "k", "to_date('2020-01-01')", "to_timestamp(0)", "to_decimal('1.5', 10, 2)", "regexp_substr(b, 'x')",
        "split(b, ',')", "array_size(r)", "equal_null(a, a)", "year(d)", "date_trunc('month', c)", "round(e, 2)", "abs(a)", "a % 2", "-a",
    ]
    seen = set()
    # describe what the real pipeline sends to DuckDB for each expression
    for e in exprs:
        try:
            c2 = conn.cursor()
            c2.execute(f"select {e} from t")
            for r in conn._duck_conn.execute("DESCRIBE " + c2._last_sql).fetchall():
                seen.add(r[1])
        except Exception:  # noqa: BLE001
            continue
    return sorted(seen)


R_TYPES = None


def _r_types() -> list:
    global R_TYPES
    if R_TYPES is None:
        R_TYPES = _reachable_types()
    return R_TYPES


def validate_contracts():
    out = validate_engine() + rematch.validate_rematch()
    r = _r_types()
    plain = [t for t in r if not t.startswith("DECIMAL")]
    unknown = [t for t in plain if t not in ORACLE and t not in UNMAPPED_KNOWN and not t.endswith("[]") and not t.startswith(("STRUCT", "MAP"))]
    out.append(("K6 every type DuckDB reports for the expression grid is either in the harness's oracle table or a listed known finding", not unknown, f"unclassified: {unknown}"))
    return out


@ob(
    "C06.rowtype_of_every_reachable_type",
    encodes=["fakesnow.types.describe_as_rowtype", "fakesnow.types.describe_as_result_metadata", "snowflake.connector.cursor.ResultMetadata.from_column (real)"],
    bounds="1..2 result columns; each column's DuckDB type: a tag drawn by symbolic index from the mapped reachable types or DECIMAL(p,s) with "
    "symbolic 1 <= p <= 38, 0 <= s <= p; column names: symbolic strings |name| <= 2",
    timeout=(400, 1200),
    stubs=["K10 vf.rematch in place of re inside fakesnow.types"],
    shards=(14, 14),
)
def rowtype(n0: str, t0: int, p0: int, s0: int, two: bool, n1: str, t1: int) -> bool:
    """
    pre: len(n0) <= 2 and len(n1) <= 2 and 0 <= t0 <= len(TAGS) and 0 <= t1 < len(TAGS) and 1 <= p0 <= 38 and 0 <= s0 <= p0
    pre: SHARD < 0 or t0 == SHARD
    post: _
    """
    ti = fast.pick(t0, len(TAGS) + 1)
    if ti == len(TAGS):
        ty0 = "DECIMAL(" + str(p0) + "," + str(s0) + ")"
        want0 = ("FIXED", p0, s0, None)
    else:
        ty0 = TAGS[ti]
        want0 = ORACLE[ty0]
    rows = [(n0, ty0, "YES", None, None, None)]
    wants = [(n0, want0)]
    if two:
        ty1 = TAGS[fast.pick(t1, len(TAGS))]
        rows.append((n1, ty1, "YES", None, None, None))
        wants.append((n1, ORACLE[ty1]))
    infos = ftypes.describe_as_rowtype(rows)
    metas = ftypes.describe_as_result_metadata(rows)
    if len(infos) != len(wants) or len(metas) != len(wants):
        return done(False)
    for info, meta, (name, (sf, prec, scale, length)) in zip(infos, metas, wants):
        if info["name"] != name or meta.name != name:
            return done(False)
        if info["type"].upper() != sf or meta.type_code != FIELD_NAME_TO_ID[sf]:
            return done(False)
        if info["precision"] != prec or info["scale"] != scale or meta.precision != prec or meta.scale != scale:
            return done(False)
        if length is not None and (info["length"] != length or meta.internal_size != length):
            return done(False)
    return done(True)


@ob(
    "C06.reachable_types_are_mapped",
    encodes=["fakesnow.types.describe_as_rowtype (totality over the types DuckDB actually reports)"],
    bounds="type string drawn by symbolic index from the set R that real DuckDB reports on this run for fakesnow's column types and ~70 "
    "expression forms (aggregates, arithmetic, casts, JSON, date functions, rewritten Snowflake functions), minus the listed known finding",
    timeout=(200, 400),
    carve="C06-unmapped-result-types",
)
def reachable_mapped(i: int) -> bool:
    """
    pre: 0 <= i < 200
    post: _
    """
    r = [t for t in fast.native(_r_types) if t not in UNMAPPED_KNOWN and not t.endswith("[]") and not t.startswith(("STRUCT", "MAP"))]
    k = fast.pick(i, 200)
    if k >= len(r):
        return done(True)
    info = ftypes.describe_as_rowtype([("C", r[k], "YES", None, None, None)])
    return done(len(info) == 1 and info[0]["type"] in ("fixed", "real", "text", "boolean", "date", "time", "timestamp_ntz", "timestamp_tz", "binary", "variant"))


# ------------------------------------------------------------------ description after every statement kind
STATEMENTS = [
    # (sql, params, paramstyle, result is a user query served by the stub)
    ("select a, b from t1 where a > 0", None, "pyformat", True),
    ("select a from t1 where a = %s", (5,), "pyformat", True),
    ("select a from t1 where a = ?", (5,), "qmark", True),
    ("insert into t1 (a, b) values (1, 'x')", None, "pyformat", False),
    ("update t1 set a = 2 where a = 1", None, "pyformat", False),
    ("delete from t1 where a = 2", None, "pyformat", False),
    ("create table tnew (a int, b varchar(10)) comment = 'c'", None, "pyformat", False),
    ("create or replace table t2 as select a from t1", None, "pyformat", False),
    ("create view vnew as select a from t1", None, "pyformat", False),
    ("alter table t1 add column z int", None, "pyformat", False),
    ("alter table t1 cluster by (a)", None, "pyformat", False),
    ("alter table t1 set tag x = 'y'", None, "pyformat", False),
    ("comment on table t1 is 'hello'", None, "pyformat", False),
    ("drop table t2", None, "pyformat", False),
    ("create schema snew", None, "pyformat", False),
    ("drop schema s2", None, "pyformat", False),
    ("create database dnew", None, "pyformat", False),
    ("use database db2", None, "pyformat", False),
    ("use schema s2", None, "pyformat", False),
    ("use schema db2.s3", None, "pyformat", False),
    ("begin", None, "pyformat", False),
    ("commit", None, "pyformat", False),
    ("rollback", None, "pyformat", False),
    ("set v1 = 10", None, "pyformat", False),
    ("truncate table t1", None, "pyformat", False),
    ("show tables", None, "pyformat", True),
    ("show schemas", None, "pyformat", True),
    ("show terse objects in schema db1.s1", None, "pyformat", True),
    ("describe table t1", None, "pyformat", True),
    ("select random(42) as r from t1", None, "pyformat", True),
    ("select a from t1 sample (50) seed (7)", None, "pyformat", True),
    ("merge into t1 using t2 on t1.a = t2.a when matched then update set b = 'm' when not matched then insert (a) values (t2.a)", None, "pyformat", True),
    ("call my_proc(1)", None, "pyformat", False),  # no-op'd by nop_regexes
    # statements whose engine SQL reads differently in another dialect: the DESCRIBE must be about exactly the SQL that ran
    ("select a, 'C:\\\\' as p, 'it''s' as q from t1", None, "pyformat", True),
    ("select a from t1 where b = %s or b = %s", ("C:\\", "a\\'b"), "pyformat", True),
    ("select datediff(day, '2020-01-01'::date, '2020-03-01'::date), a from t1", None, "pyformat", True),
    ("select regexp_replace(b, 'x+', 'y'), regexp_substr(b, 'x') from t1", None, "pyformat", True),
    ("select array_agg(a) within group (order by a desc) as aa, array_contains(1::variant, array_construct(1, 2)) as ac from t1", None, "pyformat", True),
    ("select b:k.j::varchar, to_timestamp_ntz(a), a::number(10,2) from t1", None, "pyformat", True),
    # server-side (qmark) binding of statements that answer with a status / count row: the description is about that row, which has no placeholders
    ("insert into t1 (a, b) values (?, ?)", (1, "x"), "qmark", False),
    ("update t1 set b = ? where a = ?", ("y", 1), "qmark", False),
    ("delete from t1 where a = ?", (5,), "qmark", False),
]


def _conn(style: str, eng):
    saved = snowflake.connector.paramstyle
    snowflake.connector.paramstyle = style
    try:
        fs = instance(eng, nop_regexes=[r"^call\s"])
        return fs.connect(database="db1", schema="s1")
    finally:
        snowflake.connector.paramstyle = saved


def _describes_what_ran(cur, describe_sql: str) -> bool:
    """The DESCRIBE sent to the engine is 'DESCRIBE <the engine SQL of the last statement>' (read as the engine reads it), nothing re-interpreted."""
    import sqlglot

    last = getattr(cur, "_last_sql", None)
    if not last:
        return True
    want = sqlglot.parse_one(f"DESCRIBE {last}", read="duckdb").sql(dialect="duckdb")
    got = sqlglot.parse_one(describe_sql, read="duckdb").sql(dialect="duckdb")
    return want == got


def _describe_after(si: int, as_dict: bool, ncols: int) -> bool:
    sql, params, style, is_query = STATEMENTS[si]
    eng = std_engine()
    conn = _conn(style, eng)
    names = ["A", "b c", "A"][:ncols] if not as_dict else ["A", "b c", "Z"][:ncols]
    eng.query_result = StubTable(names, [tuple(range(ncols)), tuple(range(10, 10 + ncols))])
    cur = conn.cursor(DictCursor) if as_dict else conn.cursor()
    cur.execute(sql, params)
    before = (cur.rowcount, cur.sqlstate, conn.database, conn.schema, dict(conn.variables._variables) if hasattr(conn.variables, "_variables") else None)
    log0, w0, snap0 = len(eng.log), len(eng.writes), eng.user_snapshot()
    desc = cur.description
    # reading description issues only DESCRIBE calls, on a query/table, carrying the statement's parameters
    new = eng.log[log0:]
    if not new or len(eng.writes) != w0 or eng.user_snapshot() != snap0:
        return False
    for _cid, q in new:
        if not q.lstrip().upper().startswith("DESCRIBE"):
            return False
    if not _describes_what_ran(cur, new[0][1]):
        return False
    rows = cur.fetchall()
    after = (cur.rowcount, cur.sqlstate, conn.database, conn.schema, dict(conn.variables._variables) if hasattr(conn.variables, "_variables") else None)
    if before != after:
        return False
    # one entry per result column, names == DictCursor keys / arrow column names, in order
    if as_dict:
        if rows and [d.name for d in desc] != list(rows[0].keys()):
            return False
    else:
        if rows and len(desc) != len(rows[0]):
            return False
    if is_query and "merge" not in sql and "show" not in sql and "describe" not in sql:
        if [d.name for d in desc] != names:
            return False
    return len(desc) >= 1


@ob(
    "C06.description_after_every_statement_kind",
    encodes=["fakesnow.cursor.FakeSnowflakeCursor.execute/_execute", "FakeSnowflakeCursor.description/_describe_last_sql", "fakesnow.types.describe_as_result_metadata"],
    bounds="42 statements: queries (plain, pyformat and qmark parameters - qmark also on INSERT / UPDATE / DELETE -, seeded RANDOM/SAMPLE, literals and bound text ending in a backslash or holding quotes, DATEDIFF / REGEXP_* / ARRAY_AGG WITHIN GROUP / JSON paths / casts whose engine SQL reads differently in other dialects), INSERT/UPDATE/DELETE/MERGE, CREATE/ALTER/DROP "
    "TABLE|VIEW|SCHEMA|DATABASE incl. COMMENT, tag and cluster no-ops, USE DATABASE/SCHEMA, BEGIN/COMMIT/ROLLBACK, SET, TRUNCATE, SHOW "
    "TABLES/SCHEMAS/OBJECTS, DESCRIBE TABLE, a nop_regexes match x tuple/dict cursor x 1..3 result columns (repeated names for tuples); the DESCRIBE "
    "reaching the engine is about exactly the engine SQL of the statement",
    timeout=(300, 600),
    stubs=["K1/K2/K6 vf.duckstub.Engine"],
    shards=(11, 11),
)
def describe_after(si: int, as_dict: bool, ncols: int) -> bool:
    """
    pre: 0 <= si < len(STATEMENTS) and 1 <= ncols <= 3 and (SHARD < 0 or si % 11 == SHARD)
    post: _
    """
    return done(fast.native(_describe_after, fast.pick(si, len(STATEMENTS)), bool(fast.pick(as_dict, 2)), fast.pick(ncols, 4)))


def _real_describe_after(a: dict):
    from fakesnow.instance import FakeSnow

    sql, params, style, is_query = STATEMENTS[a["si"]]
    saved = snowflake.connector.paramstyle
    snowflake.connector.paramstyle = style
    try:
        fs = FakeSnow(nop_regexes=[r"^call\s"])
        conn = fs.connect(database="db1", schema="s1")
    finally:
        snowflake.connector.paramstyle = saved
    boot = conn.cursor()
    for ddl in (
        "create schema db1.s2", "create database db2", "create schema db2.s1", "create schema db2.s3",
        "create table db1.s1.t1 (a int, b varchar)", "create table db1.s1.t2 (a int)", "insert into t1 values (1, 'x'), (5, 'y')", "insert into t2 values (1), (9)",
    ):
        boot.execute(ddl)
    cur = conn.cursor(DictCursor) if a["as_dict"] else conn.cursor()
    try:
        cur.execute(sql, params)
    except Exception as e:  # noqa: BLE001
        return None, f"statement itself failed on the real stack: {type(e).__name__}: {e}"
    try:
        desc = cur.description
        rows = cur.fetchall()
    except Exception as e:  # noqa: BLE001
        return True, f"real stack: description after {sql!r} raised {type(e).__name__}: {e}"
    if a["as_dict"] and rows and [d.name for d in desc] != list(rows[0].keys()):
        return True, f"real stack: description names {[d.name for d in desc]} vs keys {list(rows[0].keys())}"
    if not a["as_dict"] and rows and len(desc) != len(rows[0]):
        return True, f"real stack: {len(desc)} description entries for rows of width {len(rows[0])}"
    return False, "real stack: description available and consistent"


REGISTRY["C06.description_after_every_statement_kind"].real_replay = _real_describe_after


@ob(
    "C06.reading_description_changes_nothing",
    encodes=["FakeSnowflakeCursor.description/_describe_last_sql", "FakeSnowflakeCursor.fetchmany/fetchall", "FakeSnowflakeCursor.describe"],
    bounds="result of n <= 4 rows x 2 columns; description read after k <= 5 rows were fetched (fetchmany), then again, then the rest is "
    "fetched: the rows handed out must be exactly the result; describe(q) on the same cursor issues only DESCRIBE to the engine and returns "
    "the same metadata as description after executing q",
    timeout=(300, 600),
    stubs=["K1/K2/K6 vf.duckstub.Engine", "K5 StubTable"],
)
def description_frame(n: int, k: int, as_dict: bool, twice: bool) -> bool:
    """
    pre: 0 <= n <= 4 and 0 <= k <= 5
    post: _
    """
    n, k = fast.pick(n, 5), fast.pick(k, 6)
    eng = fast.native(std_engine)
    conn = fast.native(_conn, "pyformat", eng)
    rows = [(10 * r, 10 * r + 1) for r in range(n)]
    eng.query_result = StubTable(["A", "B"], rows)
    cur = conn.cursor(DictCursor) if as_dict else conn.cursor()
    cur.execute("select a, b from t1")
    got = list(cur.fetchmany(k)) if k else []
    d1 = cur.description
    if twice:
        d1 = cur.description
    got += list(cur.fetchall())
    want = [{"A": r[0], "B": r[1]} for r in rows] if as_dict else rows
    if got != want or cur.rowcount != n or [d.name for d in d1] != ["A", "B"]:
        return done(False)
    # describe() does not execute the statement
    log0, w0 = len(eng.log), len(eng.writes)
    d2 = cur.describe("select a, b from t1")
    new = [q for _c, q in eng.log[log0:]]
    if len(eng.writes) != w0 or not all(q.lstrip().upper().startswith("DESCRIBE") for q in new):
        return done(False)
    return done([(d.name, d.type_code) for d in d2] == [(d.name, d.type_code) for d in d1])


# ------------------------------------------------------------------ description follows the statement that was just executed, also when its text repeats
def _repeated_sql(change: int, as_dict: bool, read_first: bool, via: int) -> bool:
    eng = std_engine()
    conn = _conn("pyformat", eng)
    cur = conn.cursor(DictCursor) if as_dict else conn.cursor()
    sql = "select * from t1"
    eng.query_result = StubTable(["A", "B"], [(1, 2)])
    cur.execute(sql)
    if read_first:
        d0 = [d.name for d in cur.description]
        if d0 != ["A", "B"]:
            return False
    # something changes the shape of what the same text returns
    if change == 0:
        conn.cursor().execute("alter table t1 add column c int")
        eng.query_result = StubTable(["A", "B", "C"], [(1, 2, 3)])
        want = ["A", "B", "C"]
    elif change == 1:
        conn.cursor().execute("create or replace table t1 (z varchar)")
        eng.query_result = StubTable(["Z"], [("x",)])
        want = ["Z"]
    elif change == 2:
        cur.execute("use schema s2")
        eng.query_result = StubTable(["A"], [(9,)])
        want = ["A"]
    else:
        want = ["A", "B"]
    if via == 0:
        cur.execute(sql)
        names = [d.name for d in cur.description]
        rows = cur.fetchall()
        width_ok = (not rows) or (len(rows[0]) == len(want))
        return names == want and width_ok
    c2 = conn.cursor()
    c2.execute(sql)
    return [d.name for d in c2.description] == want and [d.name for d in cur.describe(sql)] == want


@ob(
    "C06.description_follows_the_latest_execution",
    encodes=["FakeSnowflakeCursor.description/_describe_last_sql/describe", "FakeSnowflakeCursor.execute/_execute"],
    bounds="the same SQL text executed twice on one cursor (or on a second cursor / through describe()), with description read or not after the first "
    "run, and between the runs: ALTER TABLE ADD COLUMN | CREATE OR REPLACE with other columns | USE SCHEMA to a same-named table | nothing: the "
    "description after the second run has the columns of the second result",
    timeout=(200, 400),
    stubs=["K1/K2/K6 vf.duckstub.Engine", "K5 StubTable"],
)
def repeated_sql(change: int, as_dict: bool, read_first: bool, via: int) -> bool:
    """
    pre: 0 <= change <= 3 and 0 <= via <= 1
    post: _
    """
    P = fast.pick
    return done(fast.native(_repeated_sql, P(change, 4), bool(P(as_dict, 2)), bool(P(read_first, 2)), P(via, 2)))


# ------------------------------------------------------------------ server-side (qmark) parameters belong to the statement they came with
QM_FIRST = [("select a from t1 where a = ?", (5,)), ("select a from t1 where a = ? or a = ?", (5, 6)), ("insert into t1 (a, b) values (?, ?)", (1, "x"))]
QM_SECOND = [
    ("update t1 set a = 2 where a = 1", None),
    ("create table tq (a int)", None),
    ("use schema s2", None),
    ("begin", None),
    ("set v1 = 3", None),
    ("select a from t1", None),
    ("select a from t1 where a = ?", (9,)),
    ("delete from t1 where a = ? or a = ? or a = ?", (1, 2, 3)),
    ("comment on table t1 is 'c'", None),
    ("call my_proc(1)", None),
]


def _qmark_sequence(fi: int, si: int, read_between: bool, as_dict: bool) -> bool:
    eng = std_engine()
    conn = _conn("qmark", eng)
    eng.query_result = StubTable(["A"], [(1,), (2,)])
    cur = conn.cursor(DictCursor) if as_dict else conn.cursor()
    q1, p1 = QM_FIRST[fi]
    cur.execute(q1, p1)
    if read_between:
        cur.description  # noqa: B018
    q2, p2 = QM_SECOND[si]
    cur.execute(q2, p2)
    desc = cur.description  # the stand-in engine checks placeholder counts like DuckDB: stale or missing values raise
    rows = cur.fetchall()
    if not desc or (rows and len(desc) != len(rows[0])):
        return False
    # and the same statement on a fresh cursor is described identically
    fresh = conn.cursor(DictCursor) if as_dict else conn.cursor()
    if si not in (1, 3):  # CREATE TABLE / BEGIN cannot be repeated
        fresh.execute(q2, p2)
        if [d.name for d in fresh.description] != [d.name for d in desc]:
            return False
    return True


@ob(
    "C06.description_uses_the_parameters_of_its_own_statement",
    encodes=["FakeSnowflakeCursor._execute (_last_sql / _last_params bookkeeping)", "FakeSnowflakeCursor.description/_describe_last_sql"],
    bounds="qmark paramstyle; one cursor executes a first statement with 1-2 bound values (2 queries, 1 INSERT), optionally reads description, then one of 10 second statements "
    "(without values: UPDATE, CREATE TABLE, USE, BEGIN, SET, query, COMMENT, a no-op'd CALL; with 1 or 3 values: query, DELETE): description after the second statement is "
    "available and equals the description on a fresh cursor; tuple / dict cursor",
    timeout=(200, 400),
    stubs=["K1/K2/K6 vf.duckstub.Engine (placeholder counts checked as DuckDB does - validated)"],
)
def qmark_sequence(fi: int, si: int, read_between: bool, as_dict: bool) -> bool:
    """
    pre: 0 <= fi < len(QM_FIRST) and 0 <= si < len(QM_SECOND)
    post: _
    """
    P = fast.pick
    return done(fast.native(_qmark_sequence, P(fi, len(QM_FIRST)), P(si, len(QM_SECOND)), bool(P(read_between, 2)), bool(P(as_dict, 2))))


def _real_qmark_sequence(a: dict):
    from fakesnow.instance import FakeSnow

    saved = snowflake.connector.paramstyle
    snowflake.connector.paramstyle = "qmark"
    try:
        conn = FakeSnow(nop_regexes=[r"^call\s"]).connect(database="db1", schema="s1")
    finally:
        snowflake.connector.paramstyle = saved
    boot = conn.cursor()
    for ddl in ("create schema db1.s2", "create table t1 (a int, b varchar)", "insert into t1 values (5, 'y')"):
        boot.execute(ddl)
    cur = conn.cursor(DictCursor) if a["as_dict"] else conn.cursor()
    q1, p1 = QM_FIRST[a["fi"]]
    q2, p2 = QM_SECOND[a["si"]]
    try:
        cur.execute(q1, p1)
        if a["read_between"]:
            cur.description  # noqa: B018
        cur.execute(q2, p2)
    except Exception as e:  # noqa: BLE001
        return None, f"statements themselves failed on the real stack: {type(e).__name__}: {str(e)[:100]}"
    try:
        desc = cur.description
    except Exception as e:  # noqa: BLE001
        return True, f"real stack: description after {q2!r} (preceded by {q1!r} with {p1}) raised {type(e).__name__}: {str(e)[:100]}"
    return not desc, f"real stack: description {[d.name for d in desc]}"


REGISTRY["C06.description_uses_the_parameters_of_its_own_statement"].real_replay = _real_qmark_sequence


# ------------------------------------------------------------------ independence of what happened before (shared harness)
import obligations.shared_independence as _indep  # noqa: E402

_IND_PRIORS = (10, 1, 4)


@ob(
    "C06.earlier_results_do_not_colour_the_next_description",
    encodes=["fakesnow.cursor.FakeSnowflakeCursor.execute/_transform/_execute/description/fetch*", "fakesnow.conn / fakesnow.variables / fakesnow.transforms (any state kept between statements)"],
    bounds="prior activity: a query whose description was read, a failed statement or a no-op'd statement executed before on the same cursor; then one of " + str(len(_indep.SUBJECTS)) + " statements (queries, DML, DDL with metadata, COMMENT, "
    "DESCRIBE, SHOW, USE, SET, MERGE, seeded RANDOM, BEGIN, a nop_regexes match, two failing statements, TRUNCATE) on the same or another cursor, tuple or "
    "dict: SQL reaching the engine, rows, rowcount, description names, error, sqlstate, session context and the statement's own effect on catalog, "
    "metadata and variables equal those on a fresh identical session",
    timeout=(300, 600),
    stubs=["K1/K2/K6 vf.duckstub.Engine"],
    shards=(11, 11),
)
def independence(si: int, pk: int, as_dict: bool, same_cursor: bool) -> bool:
    """
    pre: 0 <= si < len(_indep.SUBJECTS) and 0 <= pk < len(_IND_PRIORS) and (SHARD < 0 or si % 11 == SHARD)
    post: _
    """
    from vf import fast as _f

    return done(_f.native(_indep.independent, _f.pick(si, len(_indep.SUBJECTS)), _IND_PRIORS[_f.pick(pk, len(_IND_PRIORS))], bool(_f.pick(as_dict, 2)), bool(_f.pick(same_cursor, 2))))
