"""Concrete reproductions (real stack, public API) of the findings listed in /verif/known_findings.json.

Each function returns (reproduced: bool, detail: str)."""
from __future__ import annotations

import sys


def c20_lazy_module_keeps_mock():
    import snowflake.connector

    import fakesnow

    orig = snowflake.connector.connect
    sys.modules.pop("obligations.vfmods.lazyb", None)
    with fakesnow.patch("obligations.vfmods.lazyb.connect"):
        pass
    lb = sys.modules.get("obligations.vfmods.lazyb")
    stale = lb is not None and lb.connect is not orig
    sys.modules.pop("obligations.vfmods.lazyb", None)
    return stale, f"after the with-block obligations.vfmods.lazyb.connect is {'a stale MagicMock' if stale else 'the original'}"


def c16_identifier_backslash():
    from vf.real import real_conn

    fs, conn = real_conn()
    sql = 'select 1 as "a\\\\n"'  # the identifier text is  a \\ \\ n  (two backslashes)
    direct = [d.name for d in conn.cursor().execute(sql).description]
    via = [d.name for d in list(conn.execute_string(sql))[0].description]
    return direct != via, f"{sql!r}: column name direct {direct!r}, via execute_string {via!r}"


def c15_reference_inside_literal():
    from vf.real import real_cursor

    fs, conn, cur = real_cursor(False)
    cur.execute("set v1 = 42")
    got = cur.execute("select '$v1' as a").fetchall()
    try:
        cur.execute("select 'costs $5' as b").fetchall()
        raised = None
    except Exception as e:  # noqa: BLE001
        raised = f"{type(e).__name__}: {e}"
    bad = got != [("$v1",)] or raised is not None
    return bad, f"select '$v1' returned {got!r} (text inside a string literal was rewritten); select 'costs $5' -> {raised}"


def c03_use_schema_without_database():
    from fakesnow.instance import FakeSnow

    conn = FakeSnow().connect()
    cur = conn.cursor()
    try:
        cur.execute("use schema s1")
        return True, "use schema s1 without a current database succeeded"
    except Exception as e:  # noqa: BLE001
        errno = getattr(e, "errno", None)
        return errno != 90105, f"use schema s1 without a current database raised {type(e).__name__} errno={errno} sqlstate={getattr(e, 'sqlstate', None)} (Snowflake: 90105/22000)"


def c06_unmapped_result_types():
    from vf.real import real_cursor

    fs, conn, cur = real_cursor(False)
    cur.execute("create table t (a int, c timestamp)")
    bad = []
    for q in ("select c - c as d from t", "select uuid() as u", "select hash(a) as h from t", "select [1, 2] as l"):
        cur.execute(q)
        try:
            cur.description
        except NotImplementedError as e:
            bad.append(f"{q!r}: {e}")
    return bool(bad), "; ".join(bad) or "all described"


def c07_write_pandas_leaks():
    import pandas as pd

    import fakesnow.pandas_tools as pt
    from vf.real import real_conn

    out = []
    fs, conn = real_conn()
    df = pd.DataFrame({"A": [1]})
    try:
        pt.write_pandas(conn, df, "NOSUCH")
    except Exception as e:  # noqa: BLE001
        if type(e).__module__.startswith("duckdb"):
            out.append(f"missing table -> {type(e).__name__}")
    conn.close()
    try:
        pt.write_pandas(conn, df, "T")
    except Exception as e:  # noqa: BLE001
        if type(e).__module__.startswith("duckdb"):
            out.append(f"closed connection -> {type(e).__name__}")
    return bool(out), "; ".join(out) or "no engine exception escaped"


def c17_total_always_one():
    import asyncio
    import gzip
    import json

    import fakesnow.server as srv
    from fakesnow.instance import FakeSnow

    conn = FakeSnow().connect(database="db1", schema="s1")
    conn.cursor().execute("create table t (a int)")
    conn.cursor().execute("insert into t values (1), (2), (3)")
    srv.sessions["FINDING-TOK"] = conn

    class Req:
        headers = {"Authorization": 'Snowflake Token="FINDING-TOK"'}

        async def body(self):
            return gzip.compress(json.dumps({"sqlText": "select a from t"}).encode())

    try:
        resp = asyncio.run(srv.query_request(Req()))
    finally:
        srv.sessions.pop("FINDING-TOK", None)
    total = json.loads(resp.body)["data"]["total"]
    return total != 3, f"server answered total={total} for a 3-row result (the connector reports it as rowcount)"
