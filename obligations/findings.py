"""Concrete reproductions (real stack, public API) of the findings listed in /verif/known_findings.json.

Each function returns (reproduced: bool, detail: str)."""
from __future__ import annotations

import sys


def c20_lazy_module_keeps_mock():
    import snowflake.connector

    import fakesnow

    orig = snowflake.connector.connect
    sys.modules.pop("obligations.vfmods.lazyb", None)
    with fakesnow.patch("obligations.vfmods.lazyb.connect"):
        pass
    lb = sys.modules.get("obligations.vfmods.lazyb")
    stale = lb is not None and lb.connect is not orig
    sys.modules.pop("obligations.vfmods.lazyb", None)
    return stale, f"after the with-block obligations.vfmods.lazyb.connect is {'a stale MagicMock' if stale else 'the original'}"


def c16_identifier_backslash():
    from vf.real import real_conn

    fs, conn = real_conn()
    sql = 'select 1 as "a\\\\n"'  # the identifier text is  a \\ \\ n  (two backslashes)
    direct = [d.name for d in conn.cursor().execute(sql).description]
    via = [d.name for d in list(conn.execute_string(sql))[0].description]
    return direct != via, f"{sql!r}: column name direct {direct!r}, via execute_string {via!r}"
