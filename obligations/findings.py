"""Concrete reproductions (real stack, public API) of the findings listed in /verif/known_findings.json.

Each function returns (reproduced: bool, detail: str)."""
from __future__ import annotations

import sys


def c20_lazy_module_keeps_mock():
    import snowflake.connector

    import fakesnow

    orig = snowflake.connector.connect
    sys.modules.pop("obligations.vfmods.lazyb", None)
    with fakesnow.patch("obligations.vfmods.lazyb.connect"):
        pass
    lb = sys.modules.get("obligations.vfmods.lazyb")
    stale = lb is not None and lb.connect is not orig
    sys.modules.pop("obligations.vfmods.lazyb", None)
    return stale, f"after the with-block obligations.vfmods.lazyb.connect is {'a stale MagicMock' if stale else 'the original'}"
