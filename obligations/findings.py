"""Concrete reproductions (real stack, public API) of the findings listed in /verif/known_findings.json.

Each function returns (reproduced: bool, detail: str)."""
from __future__ import annotations

import sys


def c20_lazy_module_keeps_mock():
    import snowflake.connector

    import fakesnow

    orig = snowflake.connector.connect
    sys.modules.pop("obligations.vfmods.lazyb", None)
    with fakesnow.patch("obligations.vfmods.lazyb.connect"):
        pass
    lb = sys.modules.get("obligations.vfmods.lazyb")
    stale = lb is not None and lb.connect is not orig
    sys.modules.pop("obligations.vfmods.lazyb", None)
    return stale, f"after the with-block obligations.vfmods.lazyb.connect is {'a stale MagicMock' if stale else 'the original'}"


def c16_identifier_backslash():
    from vf.real import real_conn

    fs, conn = real_conn()
    sql = 'select 1 as "a\\\\n"'  # the identifier text is  a \\ \\ n  (two backslashes)
    direct = [d.name for d in conn.cursor().execute(sql).description]
    via = [d.name for d in list(conn.execute_string(sql))[0].description]
    return direct != via, f"{sql!r}: column name direct {direct!r}, via execute_string {via!r}"


def c15_reference_inside_literal():
    from vf.real import real_cursor

    fs, conn, cur = real_cursor(False)
    cur.execute("set v1 = 42")
    got = cur.execute("select '$v1' as a").fetchall()
    try:
        cur.execute("select 'costs $5' as b").fetchall()
        raised = None
    except Exception as e:  # noqa: BLE001
        raised = f"{type(e).__name__}: {e}"
    bad = got != [("$v1",)] or raised is not None
    return bad, f"select '$v1' returned {got!r} (text inside a string literal was rewritten); select 'costs $5' -> {raised}"


def c03_use_schema_without_database():
    from fakesnow.instance import FakeSnow

    conn = FakeSnow().connect()
    cur = conn.cursor()
    try:
        cur.execute("use schema s1")
        return True, "use schema s1 without a current database succeeded"
    except Exception as e:  # noqa: BLE001
        errno = getattr(e, "errno", None)
        return errno != 90105, f"use schema s1 without a current database raised {type(e).__name__} errno={errno} sqlstate={getattr(e, 'sqlstate', None)} (Snowflake: 90105/22000)"


def c06_unmapped_result_types():
    from vf.real import real_cursor

    fs, conn, cur = real_cursor(False)
    cur.execute("create table t (a int, c timestamp)")
    bad = []
    for q in ("select c - c as d from t", "select uuid() as u", "select hash(a) as h from t", "select [1, 2] as l"):
        cur.execute(q)
        try:
            cur.description
        except NotImplementedError as e:
            bad.append(f"{q!r}: {e}")
    return bool(bad), "; ".join(bad) or "all described"


def c07_write_pandas_leaks():
    import pandas as pd

    import fakesnow.pandas_tools as pt
    from vf.real import real_conn

    out = []
    fs, conn = real_conn()
    df = pd.DataFrame({"A": [1]})
    try:
        pt.write_pandas(conn, df, "NOSUCH")
    except Exception as e:  # noqa: BLE001
        if type(e).__module__.startswith("duckdb"):
            out.append(f"missing table -> {type(e).__name__}")
    conn.close()
    try:
        pt.write_pandas(conn, df, "T")
    except Exception as e:  # noqa: BLE001
        if type(e).__module__.startswith("duckdb"):
            out.append(f"closed connection -> {type(e).__name__}")
    return bool(out), "; ".join(out) or "no engine exception escaped"


def c17_total_always_one():
    import asyncio
    import gzip
    import json

    import fakesnow.server as srv
    from fakesnow.instance import FakeSnow

    conn = FakeSnow().connect(database="db1", schema="s1")
    conn.cursor().execute("create table t (a int)")
    conn.cursor().execute("insert into t values (1), (2), (3)")
    srv.sessions["FINDING-TOK"] = conn

    class Req:
        headers = {"Authorization": 'Snowflake Token="FINDING-TOK"'}

        async def body(self):
            return gzip.compress(json.dumps({"sqlText": "select a from t"}).encode())

    try:
        resp = asyncio.run(srv.query_request(Req()))
    finally:
        srv.sessions.pop("FINDING-TOK", None)
    total = json.loads(resp.body)["data"]["total"]
    return total != 3, f"server answered total={total} for a 3-row result (the connector reports it as rowcount)"


def c17_scale_zero_number_types_differ():
    """End to end over loopback: real uvicorn server thread, real snowflake connector."""
    import socket
    import threading
    import time

    import snowflake.connector
    import uvicorn

    import fakesnow
    import fakesnow.server

    sk = socket.socket()
    sk.bind(("127.0.0.1", 0))
    port = sk.getsockname()[1]
    sk.close()
    server = uvicorn.Server(uvicorn.Config(fakesnow.server.app, port=port, log_level="error"))
    th = threading.Thread(target=server.run, daemon=True)
    th.start()
    t0 = time.time()
    while not server.started and time.time() - t0 < 20:
        time.sleep(0.05)
    q = "select 12::number(38,0) as n"
    try:
        conn = snowflake.connector.connect(
            user="fake", password="snow", account="fakesnow", host="localhost", port=port, protocol="http", network_timeout=5,
            session_parameters={"CLIENT_OUT_OF_BAND_TELEMETRY_ENABLED": False, "FAKESNOW_DB_PATH": ":isolated:"},
        )  # fmt: skip
        http = conn.cursor().execute(q).fetchall()
        conn.close()
    finally:
        server.should_exit = True
        th.join(timeout=10)
    inproc = fakesnow.FakeSnow().connect(database="db1", schema="s1").cursor().execute(q).fetchall()
    a, b = type(http[0][0]).__name__, type(inproc[0][0]).__name__
    return a != b, f"{q}: over HTTP {http} ({a}), in-process {inproc} ({b})"


def _merge_session(t1, t2, ddl1="create table t1 (k int, v int, w int)"):
    from vf.real import real_conn

    fs, conn = real_conn()
    cur = conn.cursor()
    cur.execute(ddl1)
    cur.execute("create table t2 (k int, v int, w int)")
    for name, rows in (("t1", t1), ("t2", t2)):
        for r in rows:
            cur.execute(f"insert into {name} values ({', '.join('null' if x is None else str(x) for x in r)})")
    return conn, cur


def c12_duplicate_target_keys():
    conn, cur = _merge_session([(1, 1, 0), (1, 2, 0), (3, 3, 0)], [(1, 10, 0), (4, 40, 0)])
    cur.execute(
        "merge into t1 using t2 on t1.k = t2.k when matched and t1.v = 1 then delete "
        "when matched then update set v = t2.v when not matched then insert (k, v) values (t2.k, t2.v)"
    )
    got = sorted(cur.execute("select k, v from t1").fetchall())
    want = [(1, 10), (3, 3), (4, 40)]
    return got != want, f"target after MERGE {got}, Snowflake semantics give {want} (the row (1,2) must be updated, not deleted)"


def c12_null_counts_when_no_candidates():
    conn, cur = _merge_session([(1, 1, 0)], [(1, 5, 0)])
    cur.execute("merge into t1 using t2 on t1.k = t2.k when matched and t2.v > 100 then delete")
    row = cur.fetchall()
    return row != [(0,)], f"status row {row!r} when no row qualifies (expected 0)"


def c12_alias_or_qualified_source():
    out = []
    for sql in (
        "merge into t1 using t2 as s on t1.k = s.k when matched then delete",
        "merge into t1 as t using t2 on t.k = t2.k when matched then delete",
        "merge into t1 using db1.s1.t2 on t1.k = t2.k when matched then delete",
    ):
        conn, cur = _merge_session([(1, 1, 0)], [(1, 5, 0)])
        try:
            cur.execute(sql)
        except Exception as e:  # noqa: BLE001
            out.append(f"{sql!r} -> {type(e).__name__}")
    return bool(out), "; ".join(out) or "all accepted"


def c12_set_expression_not_plain_column():
    conn, cur = _merge_session([(1, 1, 0)], [(1, 5, 0)])
    try:
        cur.execute("merge into t1 using t2 on t1.k = t2.k when matched then update set v = t2.v + 1")
    except Exception as e:  # noqa: BLE001
        return True, f"UPDATE SET v = t2.v + 1 -> {type(e).__name__}: {str(e)[:80]}"
    got = cur.execute("select v from t1").fetchall()
    return got != [(6,)], f"v = {got}"


def c12_helper_left_behind():
    conn, cur = _merge_session([(1, 1, 0)], [(1, 5, 0)])
    cur.execute("merge into t1 using t2 on t1.k = t2.k when matched then update set v = t2.v")
    problems = []
    try:
        rows = cur.execute("select * from merge_candidates").fetchall()
        problems.append(f"merge_candidates is selectable after MERGE ({len(rows)} rows)")
    except Exception:  # noqa: BLE001
        pass
    rows = conn._duck_conn.execute("select * from db1.information_schema._fs_tables_ext").fetchall()
    if rows:
        problems.append(f"_fs_tables_ext gained {rows}")
    return bool(problems), "; ".join(problems) or "no helper left"


def c12_not_atomic():
    conn, cur = _merge_session([(1, 1, 0), (2, 2, 0), (3, 3, 0)], [(1, 10, 0), (2, 20, 0)], ddl1="create table t1 (k int primary key, v int, w int)")
    before = sorted(cur.execute("select k, v from t1").fetchall())
    try:
        cur.execute("merge into t1 using t2 on t1.k = t2.k when matched and t2.v = 10 then delete when matched then update set k = t2.w + 3")
        return False, "merge unexpectedly succeeded"
    except Exception as e:  # noqa: BLE001
        after = sorted(cur.execute("select k, v from t1").fetchall())
        return after != before, f"MERGE failed with {type(e).__name__} in a later step, target went {before} -> {after} (earlier DELETE step kept)"


def c10_regexp_substr_e_parameter():
    from vf.real import real_cursor

    fs, conn, cur = real_cursor(False)
    got = cur.execute("select regexp_substr('ab12', '([a-z]+)([0-9]+)', 1, 1, 'e')").fetchall()[0][0]
    return got != "ab", f"regexp_substr(..., 'e') returned {got!r}; Snowflake extracts the first group 'ab' (sqlglot supplies group 0, the 'e' test in the transform is dead)"


def c10_random_seed_range():
    from vf.real import real_cursor

    fs, conn, cur = real_cursor(False)
    out = []
    try:
        cur.execute("select random(4294967296)").fetchall()
    except Exception as e:  # noqa: BLE001
        out.append(f"random(4294967296) -> {type(e).__name__}: {str(e)[:60]}")
    a = cur.execute("select random(-5)").fetchall()
    b = cur.execute("select random(-5)").fetchall()
    if a != b:
        out.append("random(-5) is not deterministic (negative seeds are ignored)")
    return bool(out), "; ".join(out) or "ok"


def c10_dateadd_quarter():
    import datetime

    from vf.real import real_cursor

    fs, conn, cur = real_cursor(False)
    got = cur.execute("select dateadd(quarter, 1, '2023-01-31'::date)").fetchall()[0][0]
    return got != datetime.date(2023, 4, 30), f"dateadd(quarter, 1, '2023-01-31'::date) -> {got!r}; Snowflake: date 2023-04-30"


def c18_quoted_mixed_case_database_file():
    import os
    import tempfile

    from fakesnow.instance import FakeSnow

    with tempfile.TemporaryDirectory() as td:
        fs = FakeSnow(db_path=td)
        cur = fs.connect(database="db1", schema="s1").cursor()
        cur.execute('create database "Mixed"')
        fs.duck_conn.close()
        fs2 = FakeSnow(db_path=td)
        fs2.connect(database="Mixed")
        files = sorted(os.listdir(td))
        fs2.duck_conn.close()
    bad = "Mixed.db" in files and "MIXED.db" in files
    return bad, f"files under db_path after CREATE DATABASE \"Mixed\" and connect(database='Mixed'): {files}"


def c18_multi_call_statements_are_torn():
    """Kill (simulated: an exception from the engine wrapper) between the engine calls of CREATE TABLE .. COMMENT."""
    from fakesnow.instance import FakeSnow

    fs = FakeSnow()
    conn = fs.connect(database="db1", schema="s1")
    real = conn._duck_conn

    class Killer:
        def __init__(self):
            self.n = 0

        def __getattr__(self, name):
            return getattr(real, name)

        def execute(self, sql, params=None):
            self.n += 1
            if self.n == 2:
                raise KeyboardInterrupt("killed between the calls of one statement")
            return real.execute(sql, params)

    cur = conn.cursor()
    cur._duck_conn = Killer()
    try:
        cur.execute("create table tc (a int, b varchar(10)) comment = 'hello'")
    except KeyboardInterrupt:
        pass
    c2 = conn.cursor()
    tables = c2.execute("select table_name, comment from information_schema.tables where table_name = 'TC'").fetchall()
    torn = tables == [("TC", None)]
    return torn, f"after the kill the table exists without its comment: {tables}"


def c19_connect_check_then_create_race():
    """Deterministic replay of the race: a second session's connect commits between the first one's existence check and its ATTACH."""
    from fakesnow.instance import FakeSnow

    fs = FakeSnow()
    real_cursor = fs.duck_conn.cursor
    state = {"armed": True}

    class Proxy:
        def __init__(self, inner):
            self._inner = inner

        def __getattr__(self, name):
            return getattr(self._inner, name)

        def execute(self, sql, params=None):
            if state["armed"] and str(sql).lstrip().upper().startswith("ATTACH DATABASE"):
                state["armed"] = False
                fs.connect(database="db1", schema="s1")  # the other session wins the race
            return self._inner.execute(sql, params) if params is not None else self._inner.execute(sql)

    class DuckProxy:
        def __getattr__(self, name):
            return getattr(fs_duck, name)

        def cursor(self):
            return Proxy(real_cursor()) if state["armed"] else real_cursor()

    fs_duck = fs.duck_conn
    fs.duck_conn = DuckProxy()
    try:
        fs.connect(database="db1", schema="s1")
        return False, "connect survived the interleaving"
    except Exception as e:  # noqa: BLE001
        return True, f"connect() raised {type(e).__name__}: {str(e)[:90]} when another session attached the database between its check and its ATTACH"


def _json_session():
    from vf.real import real_cursor

    fs, conn, cur = real_cursor(False)
    cur.execute("create table t (v variant)")
    cur.execute("""insert into t select parse_json('{"a":"x","n":5,"arr":["p","q"],"e":[],"k.d":"dot","o":{"c":"deep"}}')""")
    return cur


def c11_bracket_key_with_jsonpath_syntax():
    cur = _json_session()
    got = cur.execute("select v['k.d']::varchar from t").fetchall()
    return got != [("dot",)] and got != [('"dot"',)], f"v['k.d'] -> {got!r} (the key \"k.d\" exists; the path is built as $.k.d)"


def c11_array_size_empty_array():
    cur = _json_session()
    got = cur.execute("select array_size(v:e), array_size(v:arr) from t").fetchall()
    return got[0][0] != 0, f"array_size of an empty array -> {got[0][0]!r} (Snowflake: 0); non-empty -> {got[0][1]!r}"


def c11_cast_of_extraction_to_variant():
    cur = _json_session()
    try:
        got = cur.execute("select v:a::variant from t").fetchall()
        return got != [('"x"',)], f"v:a::variant -> {got!r}"
    except Exception as e:  # noqa: BLE001
        return True, f"v:a::variant raised {type(e).__name__}: {str(e)[:70]}"


def c11_bracket_access_to_text_keeps_quotes():
    cur = _json_session()
    got = cur.execute("select v['a']::varchar, v:a::varchar, trim(v['a']) from t").fetchall()[0]
    return got[0] != got[1], f"v['a']::varchar -> {got[0]!r} but v:a::varchar -> {got[1]!r}; trim(v['a']) -> {got[2]!r}"


def c11_variant_compared_with_string_literal():
    cur = _json_session()
    try:
        got = cur.execute("select v:a = 'x' from t").fetchall()
        return got != [(True,)], f"v:a = 'x' -> {got!r}"
    except Exception as e:  # noqa: BLE001
        return True, f"v:a = 'x' raised {type(e).__name__}: {str(e)[:70]}"


def c11_nested_bracket_access():
    cur = _json_session()
    try:
        got = cur.execute("select v['arr'][1]::varchar, v['o']['c']::varchar from t").fetchall()
        return False, f"-> {got!r}"
    except Exception as e:  # noqa: BLE001
        return True, f"v['arr'][1] raised {type(e).__name__}: {str(e)[:70]}"


def c01_integer_family_is_64_bit():
    from vf.real import real_cursor

    fs, conn, cur = real_cursor(False)
    cur.execute("create table t (i int)")
    try:
        cur.execute("insert into t values (9223372036854775808)")
        got = cur.execute("select i from t").fetchall()
        return got != [(9223372036854775808,)], f"-> {got!r}"
    except Exception as e:  # noqa: BLE001
        return True, f"INT column (Snowflake: NUMBER(38,0)) rejects 2^63: {type(e).__name__}: {str(e)[:70]}"


def c01_scale_zero_numbers_come_back_as_decimal():
    from vf.real import real_cursor

    fs, conn, cur = real_cursor(False)
    cur.execute("create table t (n number(10,0), m number)")
    cur.execute("insert into t values (5, 6)")
    row = cur.execute("select n, m from t").fetchall()[0]
    return any(type(v).__name__ != "int" for v in row), f"NUMBER(10,0)/NUMBER values come back as {[type(v).__name__ for v in row]} {row!r}; the connector returns int for scale 0"


def c01_write_pandas_double_quote_in_column_name():
    import pandas as pd

    import fakesnow.pandas_tools as pt
    from vf.real import real_conn

    fs, conn = real_conn()
    conn.cursor().execute('create table t ("a""b" int)')
    try:
        pt.write_pandas(conn, pd.DataFrame({'a"b': [1]}), "T")
        return False, "accepted"
    except Exception as e:  # noqa: BLE001
        return True, f"column named a\"b -> {type(e).__name__}: {str(e)[:70]} (the name is wrapped in quotes without doubling the quote)"


def _meta_session():
    from vf.real import real_cursor

    fs, conn, cur = real_cursor(False)
    for ddl in ("create database db2", "create schema db2.s1"):
        cur.execute(ddl)
    return conn, cur


def c09_internal_objects_listed_by_show():
    conn, cur = _meta_session()
    rows = [(r[3], r[4], r[1]) for r in cur.execute("show objects").fetchall()]
    internal = [r for r in rows if r[0] == "_fs_global" or r[1] == "information_schema"]
    return bool(internal), f"SHOW OBJECTS lists fakesnow's own objects: {internal}"


def c09_show_keys_of_another_database():
    conn, cur = _meta_session()
    cur.execute("create table db2.s1.tk (a int primary key)")
    got = cur.execute("show primary keys in schema db2.s1").fetchall()
    return got == [], f"SHOW PRIMARY KEYS IN SCHEMA db2.s1 from a session on db1 -> {got} (filter says database_name = 'DB1' AND database_name = 'DB2')"


def c09_metadata_outlives_drop():
    conn, cur = _meta_session()
    cur.execute("create table t (a varchar(5)) comment = 'old'")
    cur.execute("drop table t")
    cur.execute("create table t (a varchar)")
    c = cur.execute("select comment from information_schema.tables where table_name = 'T'").fetchall()
    ln = cur.execute("select character_maximum_length from information_schema.columns where table_name = 'T'").fetchall()
    return c != [(None,)] or ln != [(None,)] and ln != [(16777216,)], f"after DROP + re-CREATE without comment/length: comment {c}, length {ln}"


def c09_foreign_database_side_table():
    conn, cur = _meta_session()
    cur.execute("create table db2.s1.tf (a varchar(7))")
    got = cur.execute("describe table db2.s1.tf").fetchall()[0][1]
    cur.execute("use schema db2.s1")
    got2 = cur.execute("describe table tf").fetchall()[0][1]
    return got != "VARCHAR(7)" or got2 != "VARCHAR(7)", f"DESCRIBE TABLE db2.s1.tf from db1 -> {got}; from db2 -> {got2} (declared VARCHAR(7))"


def c09_show_without_scope_is_account_wide():
    conn, cur = _meta_session()
    cur.execute("create table db1.s1.mine (a int)")
    cur.execute("create table db2.s1.other (a int)")
    rows = [(r[3], r[4], r[1]) for r in cur.execute("show tables").fetchall() if r[3] != "_fs_global"]
    return any(r[0] != "DB1" for r in rows), f"SHOW TABLES from a session on db1.s1 lists {rows} (Snowflake: the current schema)"


def c10_same_function_nested():
    from vf.real import real_cursor

    fs, conn, cur = real_cursor(False)
    out = []
    for q in (
        "select to_decimal(to_decimal('1.239', 10, 2) * 2, 10, 1)",
        "select try_to_number(coalesce(try_to_number('12', 5), 0)::varchar, 5)",
        "select trim(concat(trim(12), ' '))",
    ):
        try:
            cur.execute(q).fetchall()
        except Exception as e:  # noqa: BLE001
            out.append(f"{q}: {type(e).__name__}: {str(e)[:90]}")
    return bool(out), "; ".join(out) or "nested calls of the same function are rewritten"


def c11_same_function_nested():
    from vf.real import real_cursor

    fs, conn, cur = real_cursor(False)
    got = cur.execute("select object_construct('a', object_construct('b', null, 'c', 1))").fetchall()
    import json

    doc = json.loads(got[0][0])
    return "b" in doc.get("a", {}), f"object_construct('a', object_construct('b', null, 'c', 1)) -> {got[0][0]} (Snowflake drops the NULL pair at every depth)"
