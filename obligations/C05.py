"""C05 - fetch calls hand out every result row once, in order, at full width.

Engine E1: the real FakeSnowflakeCursor (from /repo) is driven through its public API by CrossHair; the
DuckDB connection is a stub whose fetch_arrow_table() answers with the K5 arrow-table stand-in.
"""
from __future__ import annotations

from typing import List

import snowflake.connector
from snowflake.connector.cursor import DictCursor

import fakesnow.conn as fconn
from vf import fast
from vf.registry import REGISTRY, SHARD, done, ob, tier
from vf.stubs import StubTable, StubTable1, validate_stub_table

fast.install()

META = {
    "level": "other",
    "explanation": "C05: symbolic row count, column count/names, arraysize and fetch-call sequence through the real cursor.",
    "assumptions": [
        "K5 pyarrow.Table contract (slice clamps; to_pylist builds one dict per row keyed by column name; columns[i].to_pylist()) - "
        "validated against real pyarrow on a grid at start-up",
        "K1 the engine stub returns the configured result table from fetch_arrow_table() after execute()",
        "negative fetch sizes are outside the claim; fetchmany(0) means 'default size' as in the connector",
    ],
}

N = tier(3, 5)  # max rows
K = tier(2, 3)  # max number of fetch calls in the symbolic sequence
S = tier(4, 6)  # max fetch size / arraysize


def validate_contracts():
    return validate_stub_table()


class ResultDuck:
    """K1 stand-in for DuckDBPyConnection: records calls and serves a configured result."""

    def __init__(self) -> None:
        self.log = []
        self.table = None
        self.closed = False

    def cursor(self):
        return self

    def execute(self, sql, params=None):
        self.log.append(sql)
        return self

    def fetchone(self):
        return ("exists",)

    def fetchall(self):
        return [(0,)]

    def fetch_arrow_table(self):
        return self.table

    def close(self):
        self.closed = True


def _conn(duck: ResultDuck):
    # the real connection class; the stub says the database and schema exist, so nothing is created
    return fconn.FakeSnowflakeConnection(duck, database="DB1", schema="S1")


def _rows(n: int, m: int) -> list:
    return [tuple(10 * r + c for c in range(m)) for r in range(n)]


def _run_ops(cur, rows: list, arr: int, ops: list, as_dict, names) -> bool:
    """Apply the op sequence to the real cursor and to the reference model; compare every answer."""

    def shape(r):
        if as_dict:
            return {names[i]: r[i] for i in range(len(names))}
        return r

    idx = 0
    cur.arraysize = arr
    for o in ops:
        if o == 0:
            got = cur.fetchone()
            exp = shape(rows[idx]) if idx < len(rows) else None
            idx += 1
            if got != exp:
                return False
            if exp is not None and not as_dict and len(got) != len(names):
                return False
        elif o <= S:
            got = cur.fetchmany(o)
            exp = [shape(r) for r in rows[idx : idx + o]]
            idx += o
            if list(got) != exp or len(got) > o:
                return False
        elif o == S + 1:
            got = cur.fetchmany()
            exp = [shape(r) for r in rows[idx : idx + arr]]
            idx += arr
            if list(got) != exp or len(got) > arr:
                return False
        elif o == S + 2:
            got = cur.fetchall()
            exp = [shape(r) for r in rows[idx:]]
            idx = max(idx, len(rows))
            if list(got) != exp:
                return False
        else:
            arr = o - (S + 2)
            cur.arraysize = arr
    # whatever is left comes out once, then nothing for ever
    rest = cur.fetchall()
    if list(rest) != [shape(r) for r in rows[idx:]]:
        return False
    if cur.fetchone() is not None or list(cur.fetchall()) != [] or list(cur.fetchmany(2)) != []:
        return False
    return True


NOOP = -1


def _ops_ok(o: int) -> bool:
    return o == NOOP or 0 <= o <= S + 2


def _step(cur, vals, idx: int, arr: int, o: int, as_dict: bool):
    """One fetch call on the real cursor vs. the reference model; returns the new reference index or -1."""

    def shape(v):
        return {"A": v} if as_dict else (v,)

    if o == 0:
        got = cur.fetchone()
        exp = shape(vals[idx]) if idx < len(vals) else None
        return idx + 1 if got == exp else -1
    if o <= S:
        got = cur.fetchmany(o)
        exp = vals[idx : idx + o]
        k = o
    elif o == S + 1:
        got = cur.fetchmany()
        exp = vals[idx : idx + arr]
        k = arr
    else:
        got = cur.fetchall()
        exp = vals[idx:]
        k = len(vals)
    if len(got) != len(exp) or len(got) > k:
        return -1
    for i in range(len(got)):
        if got[i] != shape(exp[i]):
            return -1
    return idx + k


@ob(
    "C05.exactly_once_in_order",
    encodes=["fakesnow.cursor.FakeSnowflakeCursor.execute/_execute", "fetchone", "fetchmany", "fetchall", "arraysize", "rowcount"],
    bounds="rows: any list of n<=3 (quick) / 5 (thorough) integers (cell values symbolic); 2 (quick) / 3 (thorough) arbitrary calls, each "
    "fetchone | fetchmany(1..4/6) | fetchmany() under arraysize 1..4/6 (changed between calls) | fetchall; then fetchall must return "
    "exactly the rest and three more fetches must be empty; tuple and dict cursor; sharded by (n, cursor class)",
    timeout=(240, 1500),
    stubs=["K5 StubTable1", "K1 ResultDuck"],
    shards=(2 * (N + 1), 2 * (N + 1)),
)
def exactly_once(vals: List[int], arr1: int, arr2: int, o1: int, o2: int, o3: int, as_dict: bool) -> bool:
    """
    pre: len(vals) <= N and (SHARD < 0 or (len(vals) == SHARD % (N + 1) and as_dict == (SHARD > N))) and 1 <= arr1 <= S and 1 <= arr2 <= S
    pre: _ops_ok(o1) and _ops_ok(o2) and _ops_ok(o3) and (K >= 3 or o3 == NOOP)
    post: _
    """
    duck = ResultDuck()
    conn = fast.native(_conn, duck)
    cur = conn.cursor(DictCursor) if as_dict else conn.cursor()
    duck.table = StubTable1("A", vals)
    cur.execute("select a from t")
    return done(_exactly_once_body(cur, vals, arr1, arr2, o1, o2, o3, as_dict))


def _exactly_once_body(cur, vals, arr1, arr2, o1, o2, o3, as_dict) -> bool:
    if cur.rowcount != len(vals):
        return False
    idx = 0
    cur.arraysize = arr1
    arr = arr1
    for o in (o1, o2, o3):
        if o == NOOP:
            continue
        idx = _step(cur, vals, idx, arr, o, as_dict)
        if idx < 0:
            return False
        cur.arraysize = arr2
        arr = arr2
    if _step(cur, vals, idx, arr, S + 2, as_dict) < 0:
        return False
    return cur.fetchone() is None and list(cur.fetchall()) == [] and list(cur.fetchmany(2)) == []


def _real_exactly_once(a: dict):
    from vf.real import real_cursor

    vals = list(a["vals"])
    if any(abs(v) >= 2**63 for v in vals):
        return None, "value outside BIGINT - not replayable on the real engine"
    fs, conn, cur = real_cursor(a["as_dict"])
    cur.execute("create table t (a bigint)")
    for v in vals:
        cur.execute(f"insert into t values ({v})")
    cur.execute("select a from t order by rowid")
    ok = _exactly_once_body(cur, vals, a["arr1"], a["arr2"], a["o1"], a["o2"], a["o3"], a["as_dict"])
    return (not ok), f"real stack, same call sequence: harness body returned {ok}"


REGISTRY["C05.exactly_once_in_order"].real_replay = _real_exactly_once


POOL = ["A", "b", "A b"]


@ob(
    "C05.full_width_any_names",
    encodes=["fakesnow.cursor.FakeSnowflakeCursor.fetchone/fetchmany/fetchall (row construction)"],
    bounds="rows n<=2/3; 1..3 columns whose names are drawn by symbolic index from a 3-name pool, so every pattern of "
    "repeated names is reachable; tuple cursor: one element per column in column order; dict cursor (distinct names): "
    "keys == names; one fetch call: fetchone | fetchmany(2) | fetchall",
    timeout=(180, 900),
    stubs=["K5 StubTable", "K1 ResultDuck"],
    shards=(3, 3),
)
def full_width(n: int, m: int, i0: int, i1: int, i2: int, o1: int, as_dict: bool) -> bool:
    """
    pre: 0 <= n <= N - 1 and 1 <= m <= 3 and (SHARD < 0 or m == SHARD + 1) and 0 <= i0 <= 2 and 0 <= i1 <= 2 and 0 <= i2 <= 2
    pre: o1 in (0, 2, S + 2) and (not as_dict or (i0 != i1 and i1 != i2 and i0 != i2))
    post: _
    """
    names = [POOL[i0], POOL[i1], POOL[i2]][:m]
    rows = _rows(n, m)
    duck = ResultDuck()
    conn = fast.native(_conn, duck)
    cur = conn.cursor(DictCursor) if as_dict else conn.cursor()
    duck.table = StubTable(names, rows)
    fast.native(cur.execute, "select * from t")
    return done(_run_ops(cur, rows, 2, [o1], as_dict, names))


def _real_full_width(a: dict):
    from vf.real import real_cursor

    m, n = a["m"], a["n"]
    names = [POOL[a["i0"]], POOL[a["i1"]], POOL[a["i2"]]][:m]
    rows = _rows(n, m)
    fs, conn, cur = real_cursor(a["as_dict"])
    if n == 0:
        sel = "select " + ", ".join(f'{c} as "{nm}"' for c, nm in enumerate(names)) + " where 1 = 0"
    else:
        sel = " union all ".join(
            "select " + ", ".join(f'{v} as "{nm}"' for v, nm in zip(r, names)) for r in rows
        )
    cur.execute(sel)
    ok = _run_ops(cur, rows, 2, [a["o1"]], a["as_dict"], names)
    return (not ok), f"real stack: {sel!r} -> harness body returned {ok}"


REGISTRY["C05.full_width_any_names"].real_replay = _real_full_width


@ob(
    "C05.new_execute_replaces_result",
    encodes=["fakesnow.cursor.FakeSnowflakeCursor.execute/_execute (result reset)", "fetchmany", "fetchall", "fetch_pandas_all"],
    bounds="first result n1<=4/6 rows, k<=5/7 rows fetched from it (fetchmany or fetchone), second result n2<=4/6 rows, dict or tuple cursor",
    timeout=(180, 900),
    stubs=["K5 StubTable", "K1 ResultDuck"],
)
def reexecute(n1: int, n2: int, k: int, use_one: bool, as_dict: bool) -> bool:
    """
    pre: 0 <= n1 <= N and 0 <= n2 <= N and 0 <= k <= S
    post: _
    """
    duck = ResultDuck()
    conn = _conn(duck)
    cur = conn.cursor(DictCursor) if as_dict else conn.cursor()
    duck.table = StubTable(["A", "B"], [(100 + r, 200 + r) for r in range(n1)])
    cur.execute("select a, b from t1")
    if k:
        if use_one:
            cur.fetchone()
        else:
            cur.fetchmany(k)
    rows2 = [(300 + r,) for r in range(n2)]
    duck.table = StubTable(["C"], rows2)
    cur.execute("select c from t2")
    if cur.rowcount != n2:
        return done(False)
    frame = cur.fetch_pandas_all()
    if frame != ("pandas-frame", ["C"], rows2):
        return done(False)
    got = cur.fetchall()
    exp = [{"C": r[0]} for r in rows2] if as_dict else rows2
    return done(list(got) == exp and cur.fetchone() is None)


@ob(
    "C05.executemany_leaves_the_last_result",
    encodes=["fakesnow.cursor.FakeSnowflakeCursor.executemany", "FakeSnowflakeCursor.execute/_execute (result reset)", "fetchall", "fetch_pandas_all", "rowcount"],
    bounds="executemany of a row-producing statement with m <= 3 parameter sets (m = 0 after an earlier execute included); each execution's result has n <= 3/4 rows; "
    "afterwards rowcount, fetch_pandas_all and fetchall all describe the rows of the LAST execution (or, for m = 0, still the earlier result); dict or tuple cursor",
    timeout=(180, 600),
    stubs=["K5 StubTable", "K1 ResultDuck"],
)
def executemany_result(n0: int, n: int, m: int, as_dict: bool) -> bool:
    """
    pre: 0 <= n0 <= 3 and 0 <= n <= N - 1 and 0 <= m <= 3
    post: _
    """
    duck = ResultDuck()
    conn = _conn(duck)
    cur = conn.cursor(DictCursor) if as_dict else conn.cursor()
    rows0 = [(500 + r,) for r in range(n0)]
    duck.table = StubTable(["C"], rows0)
    cur.execute("select c from t0")
    rows = [(700 + r,) for r in range(n)]
    duck.table = StubTable(["C"], rows)
    cur.executemany("select c from t2 where c > %s", [(j,) for j in range(m)])
    want = rows if m > 0 else rows0
    if cur.rowcount != len(want):
        return done(False)
    frame = cur.fetch_pandas_all()
    if frame != ("pandas-frame", ["C"], want):
        return done(False)
    got = cur.fetchall()
    exp = [{"C": r[0]} for r in want] if as_dict else want
    return done(list(got) == exp and cur.fetchone() is None)


@ob(
    "C05.fetch_before_execute_raises",
    encodes=["fakesnow.cursor.FakeSnowflakeCursor.fetchone/fetchmany/fetchall/fetch_pandas_all/get_result_batches (no result set)"],
    bounds="which of the four fetch entry points (0..3), fetchmany size 0..5/7, dict or tuple cursor",
    timeout=(60, 120),
    stubs=["K1 ResultDuck"],
)
def before_execute(which: int, k: int, as_dict: bool) -> bool:
    """
    pre: 0 <= which <= 3 and 0 <= k <= S
    post: _
    """
    duck = ResultDuck()
    conn = _conn(duck)
    cur = conn.cursor(DictCursor) if as_dict else conn.cursor()
    if cur.rowcount is not None:
        return done(False)
    try:
        if which == 0:
            cur.fetchone()
        elif which == 1:
            cur.fetchmany(k)
        elif which == 2:
            cur.fetchall()
        else:
            cur.fetch_pandas_all()
    except TypeError as e:
        return done(which != 3 and "No open result set" in str(e))
    except snowflake.connector.NotSupportedError:
        return done(which == 3)
    return done(False)


# ------------------------------------------------------------------ a statement that is answered without reaching the normal path (nop_regexes) is a new execute too
def _after_noop(n1: int, k: int, use_one: bool, as_dict: bool, kind: int) -> bool:
    from snowflake.connector.cursor import SnowflakeCursor

    from vf.session import instance, std_engine

    eng = std_engine()
    conn = instance(eng, nop_regexes=[r"^call\s"]).connect(database="db1", schema="s1")
    cur = conn.cursor(DictCursor if as_dict else SnowflakeCursor)
    eng.query_result = StubTable(["A", "B"], [(100 + r, 200 + r) for r in range(n1)])
    cur.execute("select a, b from t1")
    if k:
        if use_one:
            cur.fetchone()
        else:
            cur.fetchmany(k)
    stmt = ["call my_proc(1)", "set v9 = 1", "alter table t1 cluster by (a)", "use schema s2", "begin"][kind]
    cur.execute(stmt)
    want = [{"status": "Statement executed successfully."}] if as_dict else [("Statement executed successfully.",)]
    if cur.rowcount != 1:
        return False
    got = cur.fetchall()
    if as_dict:
        got = [{str(kk).lower(): v for kk, v in r.items()} for r in got]
    return got == want and cur.fetchone() is None and list(cur.fetchall()) == []


@ob(
    "C05.status_statements_replace_the_result_too",
    encodes=["fakesnow.cursor.FakeSnowflakeCursor.execute (nop_regexes short-circuit, no-op rewrites) / _execute (result reset)", "fetchone/fetchmany/fetchall"],
    bounds="a first result of n1 <= 3/5 rows from which k <= 4/6 rows were fetched (fetchone or fetchmany), then a statement answered with the success "
    "status - a nop_regexes match, SET, CLUSTER BY no-op, USE SCHEMA, BEGIN - on the same cursor: its one status row is handed out once, then nothing",
    timeout=(200, 600),
    stubs=["K1/K2 vf.duckstub.Engine", "K5 StubTable"],
)
def after_noop(n1: int, k: int, use_one: bool, as_dict: bool, kind: int) -> bool:
    """
    pre: 0 <= n1 <= N and 0 <= k <= S and 0 <= kind <= 4
    post: _
    """
    P = fast.pick
    return done(fast.native(_after_noop, P(n1, N + 1), P(k, S + 1), bool(P(use_one, 2)), bool(P(as_dict, 2)), P(kind, 5)))
