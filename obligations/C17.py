"""C17 - the HTTP server answers exactly like the in-process fake.

The connector's decoding is the wire format (K8); fakesnow's re-encoding is decided:
* E2 (z3, cross-checked with cvc5 in the thorough tier): the real fakesnow.arrow.timestamp_to_sf_struct / to_sf / to_sf_schema are
  *called* with the pyarrow shim (vf.pashim), so the timestamp of one row is a symbolic 64-bit integer.
* E1 (CrossHair): real server.to_conn / query_request with symbolic header shape, token table, statement outcome and row count.
"""
from __future__ import annotations

import asyncio
import gzip
import json
import types

import z3

import fakesnow.arrow as farrow
from vf import fast, pashim
from vf.registry import REGISTRY, SHARD, SmtResult, done, ob, tier
from vf.smt import check

META = {
    "level": "other",
    "explanation": "C17: SMT queries over the terms the real arrow re-encoding code computes for a symbolic timestamp / time value "
    "(every value of the type's range, pre-1970 included); symbolic execution of the real request handlers.",
    "assumptions": [
        "K5 pyarrow kernel semantics as encoded by vf.pashim (validated against real pyarrow on samples at start-up); safe casts raise when inexact",
        "K8 wire format the connector decodes: timestamp = struct(epoch seconds int64, fraction nanoseconds int32 [, timezone offset+1440]); TIME = int64 nanoseconds",
        "NULL validity is modelled per element (K5 shim: element-wise kernels propagate NULL, a StructArray without mask is valid everywhere); "
        "decimals and every C++ decoding step of the connector are outside the claim",
        "known finding carved out: the server's 'total' field is always 1",
    ],
}

US_MIN = -62135596800 * 10**6  # 0001-01-01 00:00:00
US_MAX = 253402300799 * 10**6 + 999_999  # 9999-12-31 23:59:59.999999


def validate_contracts():
    return pashim.validate_shim()


def _with_shim(fn, *args):
    saved = farrow.pa, farrow.pc
    farrow.pa, farrow.pc = pashim.pa, pashim.pc
    pashim.Ctx.reset()
    try:
        out = fn(*args)
        return out, list(pashim.Ctx.side) + [("__def__", d) for d in pashim.Ctx.defs]
    finally:
        farrow.pa, farrow.pc = saved


def _timestamp_struct(tz) -> SmtResult:
    t = z3.Int("t_us")
    v = z3.Bool("valid")  # the element is not NULL
    try:
        struct, side = _with_shim(farrow.timestamp_to_sf_struct, pashim.Arr(t, pashim.timestamp("us", tz=tz), valid=v))
    except pashim.Unsupported as e:
        return SmtResult("inconclusive", detail=f"shim does not model: {e}")
    names = [f.name for f in struct.fields]
    want_names = ["epoch", "fraction"] + (["timezone"] if tz else [])
    if names != want_names:
        return SmtResult("counterexample", detail=f"struct fields {names}, wire format needs {want_names}", model={"tz": tz, "t_us": 0})
    epoch, fraction = struct.child("epoch"), struct.child("fraction")
    defs = [c for d, c in side if d == "__def__"]
    side = [(d, c) for d, c in side if d != "__def__"]
    domain = z3.And(t >= US_MIN, t <= US_MAX, *defs)
    value_ok = z3.And(epoch.valid, fraction.valid, epoch.term * 10**9 + fraction.term == t * 1000, fraction.term >= 0, fraction.term < 10**9)
    if tz:
        value_ok = z3.And(value_ok, struct.child("timezone").valid, struct.child("timezone").term == 1440)
    # a NULL timestamp must be a NULL struct (the connector reads the struct's validity, not its children's), a non-NULL one a valid struct
    good = z3.And(*[c for _d, c in side], struct.valid == v, z3.Implies(v, value_ok))
    types_ok = epoch.type == pashim.int64() and fraction.type == pashim.int32() and (not tz or struct.child("timezone").type == pashim.int32())
    if not types_ok:
        return SmtResult("counterexample", detail="field types differ from int64/int32[/int32]", model={"tz": tz, "t_us": 0})
    verdict, model, dt, notes = check([domain, z3.Not(good)], timeout_s=tier(120, 600))
    sample = {"query": "exists (t_us in [0001-01-01, 9999-12-31], is-null flag): a safe cast fails or struct validity != value validity or (not null and (epoch*1e9+fraction != t*1000 or fraction not in [0,1e9) or timezone != 1440))", "side_conditions": [d for d, _ in side], "tz": tz, "notes": notes}
    if verdict == "unsat":
        return SmtResult("holds", queries=1, solver_s=dt, detail="unsat; " + "; ".join(notes), samples=[sample], programs=1)
    if verdict == "sat":
        tv = model.eval(t, model_completion=True).as_long()
        isnull = z3.is_false(model.eval(v, model_completion=True))
        failing = [d for d, c in side if z3.is_false(model.eval(c, model_completion=True))]
        return SmtResult("counterexample", queries=1, solver_s=dt, detail=f"t_us={tv} null={isnull} failing side conditions={failing}", model={"tz": tz, "t_us": tv, "null": isnull}, samples=[sample], programs=1)
    return SmtResult("inconclusive", queries=1, solver_s=dt, detail=f"solver: {verdict} {notes}", samples=[sample])


def _real_timestamp(a: dict):
    import pyarrow as pa

    tz = a.get("tz")
    if a.get("null"):
        arr = pa.array([None, a["t_us"]], type=pa.timestamp("us", tz=tz))
        try:
            st = farrow.timestamp_to_sf_struct(arr)
        except Exception as e:  # noqa: BLE001
            return True, f"real pyarrow: timestamp_to_sf_struct([NULL, ..]) raised {type(e).__name__}: {e}"
        return st[0].is_valid or not st[1].is_valid, f"real pyarrow: [NULL, {a['t_us']}] -> validity {[x.is_valid for x in st]} values {st.to_pylist()}"
    arr = pa.array([a["t_us"]], type=pa.timestamp("us", tz=tz))
    try:
        st = farrow.timestamp_to_sf_struct(arr)
    except Exception as e:  # noqa: BLE001
        return True, f"real pyarrow: timestamp_to_sf_struct({a['t_us']} us) raised {type(e).__name__}: {e}"
    if not st[0].is_valid:
        return True, f"real pyarrow: non-NULL {a['t_us']} us became a NULL struct"
    row = st[0].as_py()
    ok = row["epoch"] * 10**9 + row["fraction"] == a["t_us"] * 1000 and 0 <= row["fraction"] < 10**9 and (not tz or row.get("timezone") == 1440)
    return (not ok), f"real pyarrow: {a['t_us']} us -> {row}"


@ob(
    "C17.timestamp_ntz_struct_exact",
    kind="smt",
    encodes=["fakesnow.arrow.timestamp_to_sf_struct (real body, pyarrow shimmed)"],
    bounds="one row; NULL or a timestamp[us] value, any integer in 0001-01-01 .. 9999-12-31 23:59:59.999999 (pre-1970 included), no time zone; "
    "NULL-ness is a symbolic flag: the struct handed to the connector is NULL exactly when the timestamp is; "
    "Python/pyarrow int64 as mathematical integers with explicit wrap / range side conditions",
    timeout=(300, 900),
    stubs=["K5 vf.pashim"],
    real_replay=_real_timestamp,
)
def ts_ntz() -> SmtResult:
    return _timestamp_struct(None)


@ob(
    "C17.timestamp_tz_struct_exact",
    kind="smt",
    encodes=["fakesnow.arrow.timestamp_to_sf_struct (real body, pyarrow shimmed, tz='UTC' branch)"],
    bounds="as C17.timestamp_ntz_struct_exact with tz='UTC' (the only zone the code accepts); timezone field must be 1440",
    timeout=(300, 900),
    stubs=["K5 vf.pashim"],
    real_replay=_real_timestamp,
)
def ts_tz() -> SmtResult:
    return _timestamp_struct("UTC")


def _real_time(a: dict):
    import pyarrow as pa

    if a.get("null_columns"):
        from fakesnow.types import describe_as_rowtype

        kinds = {
            "TM": (pa.time64("us"), "TIME", 1), "TS": (pa.timestamp("us"), "TIMESTAMP", 1), "TZ": (pa.timestamp("us", tz="UTC"), "TIMESTAMP WITH TIME ZONE", 1),
            "I": (pa.int64(), "BIGINT", 1), "D": (pa.int64(), "BIGINT", 1), "S": (pa.string(), "VARCHAR", "x"),
        }  # fmt: skip
        names = list(a["null_columns"])
        tbl = pa.table({n: pa.array([None, kinds[n][2]], type=kinds[n][0]) for n in names})
        rowtype = describe_as_rowtype([(n, kinds[n][1], "YES", None, None, None) for n in names])
        try:
            out = farrow.to_sf(tbl, rowtype)
        except Exception as e:  # noqa: BLE001
            return True, f"real pyarrow: to_sf raised {type(e).__name__}: {e}"
        val = {n: [x.is_valid for x in out.column(i)] for i, n in enumerate(names)}
        return any(v != [False, True] for v in val.values()), f"real pyarrow: to_sf of [NULL, value] per column -> validity {val}"
    tbl = pa.table({"T": pa.array([a["t_us"]], type=pa.time64("us"))})
    rowtype = [{"name": "T", "type": "time", "precision": 0, "scale": 9, "length": None}]
    try:
        out = farrow.to_sf(tbl, rowtype)  # type: ignore[arg-type]
    except Exception as e:  # noqa: BLE001
        return True, f"real pyarrow: to_sf raised {type(e).__name__}: {e}"
    v = out.column(0)[0].as_py()
    return v != a["t_us"] * 1000, f"real pyarrow: time {a['t_us']} us -> {v} (want {a['t_us'] * 1000} ns)"


@ob(
    "C17.to_sf_columns_and_metadata",
    kind="smt",
    encodes=["fakesnow.arrow.to_sf", "fakesnow.arrow.to_sf_schema", "fakesnow.types.describe_as_rowtype"],
    bounds="a table of one row with a TIME column (any microsecond of the day), a TIMESTAMP column and an INT column run through the real "
    "to_sf with the shim: TIME must become exactly 1000 x microseconds as int64 without wrap-around, other columns pass through, and the "
    "field metadata (logicalType, precision, scale, charLength) must be the strings the connector's decoder needs for the rowtype that "
    "the real describe_as_rowtype produces for FIXED(p,s) with symbolic-free p,s over a grid, TEXT, TIME, TIMESTAMP_NTZ/TZ",
    timeout=(300, 900),
    stubs=["K5 vf.pashim"],
    real_replay=_real_time,
)
def to_sf_table() -> SmtResult:
    from fakesnow.types import describe_as_rowtype

    tm = z3.Int("t_us")
    ts = z3.Int("ts_us")
    iv = z3.Int("i")
    nn = {n: z3.Bool(f"valid_{n}") for n in ("TM", "TS", "TZ", "I", "D", "S")}  # per column: the element is not NULL
    cols = [
        ("TM", pashim.Arr(tm, pashim.time64("us"), valid=nn["TM"]), "TIME"),
        ("TS", pashim.Arr(ts, pashim.timestamp("us"), valid=nn["TS"]), "TIMESTAMP"),
        ("TZ", pashim.Arr(ts, pashim.timestamp("us", tz="UTC"), valid=nn["TZ"]), "TIMESTAMP WITH TIME ZONE"),
        ("I", pashim.Arr(iv, pashim.int64(), valid=nn["I"]), "BIGINT"),
        ("D", pashim.Arr(iv, pashim.int64(), valid=nn["D"]), "DECIMAL(10,2)"),
        ("S", pashim.Arr(iv, pashim.int64(), valid=nn["S"]), "VARCHAR"),
    ]
    rowtype = describe_as_rowtype([(n, ty, "YES", None, None, None) for n, _a, ty in cols])
    table = pashim.Table([a for _n, a, _t in cols], pashim.Schema([pashim.Field(n, a.type) for n, a, _t in cols]))
    try:
        out, side = _with_shim(farrow.to_sf, table, rowtype)
    except pashim.Unsupported as e:
        return SmtResult("inconclusive", detail=f"shim does not model: {e}")
    # ---- metadata the connector's Arrow decoder reads (K8)
    want_md = {
        "TM": {"logicalType": "TIME", "precision": "38", "scale": "9", "charLength": "0"},
        "TS": {"logicalType": "TIMESTAMP_NTZ", "precision": "38", "scale": "9", "charLength": "0"},
        "TZ": {"logicalType": "TIMESTAMP_TZ", "precision": "38", "scale": "9", "charLength": "0"},
        "I": {"logicalType": "FIXED", "precision": "38", "scale": "0", "charLength": "0"},
        "D": {"logicalType": "FIXED", "precision": "10", "scale": "2", "charLength": "0"},
        "S": {"logicalType": "TEXT", "precision": "38", "scale": "0", "charLength": "16777216"},
    }
    fields = {f.name: f for f in out.schema.fields}
    for name, md in want_md.items():
        got = fields[name].metadata if name in fields else None
        if got != md:
            return SmtResult("counterexample", detail=f"metadata of {name}: {got} (decoder needs {md})", model={"t_us": 0, "column": name}, programs=1)
    if not isinstance(fields["TS"].type, pashim.StructType) or [f.name for f in fields["TS"].type.fields] != ["epoch", "fraction"]:
        return SmtResult("counterexample", detail="TIMESTAMP_NTZ field is not struct(epoch, fraction)", model={"t_us": 0}, programs=1)
    if [f.name for f in fields["TZ"].type.fields] != ["epoch", "fraction", "timezone"] or fields["TM"].type != pashim.int64():
        return SmtResult("counterexample", detail="TIMESTAMP_TZ / TIME field types", model={"t_us": 0}, programs=1)
    by = dict(zip([n for n, _a, _t in cols], out.columns))
    if not isinstance(by["TS"], pashim.Struct) or by["I"].term is not iv:
        return SmtResult("counterexample", detail="column pass-through / struct conversion", model={"t_us": 0}, programs=1)
    defs = [c for d, c in side if d == "__def__"]
    side = [(d, c) for d, c in side if d != "__def__"]
    domain = z3.And(tm >= 0, tm < 86400 * 10**6, ts >= US_MIN, ts <= US_MAX, *defs)
    good = z3.And(
        *[c for _d, c in side],
        z3.Implies(nn["TM"], by["TM"].term == tm * 1000),
        # NULL in, NULL out - for every column kind (validity is what the connector's decoder reads)
        *[by[n].valid == nn[n] for n in nn],
    )
    verdict, model, dt, notes = check([domain, z3.Not(good)], timeout_s=tier(120, 600))
    sample = {"query": "exists time-of-day t_us, per-column NULL flags: to_sf(TIME) != 1000*t_us or a safe cast fails or some column's validity changes", "notes": notes}
    if verdict == "unsat":
        return SmtResult("holds", queries=1, solver_s=dt, detail="unsat; " + "; ".join(notes), samples=[sample], programs=1)
    if verdict == "sat":
        bad_null = [n for n in nn if z3.is_false(model.eval(by[n].valid == nn[n], model_completion=True))]
        return SmtResult(
            "counterexample", queries=1, solver_s=dt, detail=f"TIME re-encoding / NULL validity of columns {bad_null}",
            model={"t_us": model.eval(tm, model_completion=True).as_long(), "null_columns": bad_null}, samples=[sample], programs=1,
        )
    return SmtResult("inconclusive", queries=1, solver_s=dt, detail=str(notes))


# ------------------------------------------------------------------ request handlers (E1)
class _Req:
    def __init__(self, headers: dict, body: dict, query: dict | None = None) -> None:
        self.headers = headers
        self._body = gzip.compress(json.dumps(body).encode())
        self.query_params = query or {}

    async def body(self):
        return self._body


def _server():
    import fakesnow.server as srv

    return srv


HEADERS = [None, "", 'Snowflake Token="', 'Snowflake Token="TOK-A"', 'Snowflake Token="TOK-B"', 'Snowflake Token="TOK-X"', 'Snowflake Token="TOK-A"x', "Bearer TOK-A"]


def _to_conn(hi: int, known_b: bool) -> bool:
    srv = _server()
    saved = dict(srv.sessions)
    srv.sessions.clear()
    ca, cb = object(), object()
    srv.sessions["TOK-A"] = ca
    if known_b:
        srv.sessions["TOK-B"] = cb
    before = dict(srv.sessions)
    h = HEADERS[hi]
    req = types.SimpleNamespace(headers={} if h is None else {"Authorization": h})
    try:
        try:
            got = srv.to_conn(req)
            err = None
        except srv.ServerError as e:
            got, err = None, e
        if dict(srv.sessions) != before:
            return False
        if h in (None, ""):
            return err is not None and err.status_code == 401 and err.code == "390103"
        tok = h[17:-1]
        if tok == "TOK-A" and h.startswith('Snowflake Token="') and h.endswith('"'):
            return got is ca
        if tok == "TOK-B" and known_b:
            return got is cb
        if tok in before:
            return got is before[tok]
        return err is not None and err.status_code == 401 and err.code == "390104"
    finally:
        srv.sessions.clear()
        srv.sessions.update(saved)


@ob(
    "C17.token_lookup",
    encodes=["fakesnow.server.to_conn"],
    bounds="8 Authorization header shapes (missing, empty, truncated, two known tokens, unknown token, trailing garbage, other scheme) x second "
    "token registered or not: the session of exactly that token or 401 with 390103 / 390104, and the session table untouched",
    timeout=(120, 300),
)
def token_lookup(hi: int, known_b: bool) -> bool:
    """
    pre: 0 <= hi < len(HEADERS)
    post: _
    """
    return done(fast.native(_to_conn, fast.pick(hi, len(HEADERS)), bool(fast.pick(known_b, 2))))


QUERIES = [
    ("select a, b from t1", None),
    ("insert into t1 (a) values (1)", None),
    ("select a from nosuch", (2003, "42S02")),
    ("select a from nodb.s1.t1", (2043, "02000")),
    ("create table tnew (a int)", None),
    ("use schema s2", None),
    ("begin", None),
]


def _query(qi: int, n: int) -> bool:
    """Real query_request against a session whose engine is the stub: response fields vs. the in-process cursor on an identical session."""
    from vf.session import instance, std_engine
    from vf.stubs import StubTable

    srv = _server()
    sql, want_err = QUERIES[qi]

    def mk():
        eng = std_engine()
        eng.query_result = StubTable(["A", "B"], [(i, 10 * i) for i in range(n)])
        eng.dml_count = n
        return eng, instance(eng).connect(database="db1", schema="s1")

    eng1, c1 = mk()
    eng2, c2 = mk()
    # in-process reference
    ref_err = None
    cur = c2.cursor()
    try:
        cur.execute(sql)
        ref_rows = cur.fetchall()
        ref_desc = cur._describe_last_sql()
    except Exception as e:  # noqa: BLE001
        ref_err = e
    saved = dict(srv.sessions)
    saved_fns = srv.run_in_threadpool, srv.to_ipc, srv.to_sf
    seen = {}

    async def direct(fn, *a, **k):
        return fn(*a, **k)

    def fake_to_sf(table, rowtype):
        seen["table"] = table
        seen["rowtype_for_arrow"] = rowtype
        return table

    srv.run_in_threadpool, srv.to_ipc, srv.to_sf = direct, (lambda t: b"ipc-bytes"), fake_to_sf
    srv.sessions.clear()
    srv.sessions["TOK"] = c1
    try:
        req = _Req({"Authorization": 'Snowflake Token="TOK"'}, {"sqlText": sql})
        resp = asyncio.run(srv.query_request(req))
        data = json.loads(resp.body)
    finally:
        srv.run_in_threadpool, srv.to_ipc, srv.to_sf = saved_fns
        srv.sessions.clear()
        srv.sessions.update(saved)
    if want_err is not None:
        if ref_err is None or data.get("success") is not False:
            return False
        code = f"{want_err[0]:06d}"
        return (
            data["code"] == code
            and data["data"]["errorCode"] == code
            and data["data"]["sqlState"] == want_err[1] == ref_err.sqlstate
            and data["message"] == ref_err.msg
            and resp.status_code == 200
        )
    if ref_err is not None or data.get("success") is not True:
        return False
    d = data["data"]
    from fakesnow.types import describe_as_rowtype

    if d["rowtype"] != json.loads(json.dumps(describe_as_rowtype(ref_desc))) or d["queryResultFormat"] != "arrow":
        return False
    if seen.get("rowtype_for_arrow") is not None and seen["rowtype_for_arrow"] != describe_as_rowtype(ref_desc):
        return False
    # rows: the table handed to the arrow encoder is the statement's whole result (empty results send no rowset)
    if len(ref_rows) == 0:
        return d["rowsetBase64"] == ""
    tbl = seen.get("table")
    if tbl is None or d["rowsetBase64"] == "":
        return False
    got_rows = [tuple(r.values()) for r in tbl.to_pylist()]
    return got_rows == ref_rows and eng1.user_snapshot() == eng2.user_snapshot()


@ob(
    "C17.query_response_matches_in_process",
    encodes=["fakesnow.server.query_request", "fakesnow.server.to_conn", "fakesnow.cursor.FakeSnowflakeCursor.execute/_describe_last_sql"],
    bounds="7 statements (query, DML, two failing statements, DDL, USE, BEGIN) x result/affected row count 0..3: rowtype, rows handed to the "
    "Arrow encoder, empty-result handling, success flag and error code/sqlState/message equal the in-process cursor on an identical session",
    timeout=(300, 600),
    stubs=["K1/K2 vf.duckstub.Engine", "run_in_threadpool = direct call", "to_ipc / to_sf recorders (their content is C17.timestamp_* / C17.to_sf_*)"],
    carve="C17-total-always-one",
)
def query_response(qi: int, n: int) -> bool:
    """
    pre: 0 <= qi < len(QUERIES) and 0 <= n <= 3
    post: _
    """
    return done(fast.native(_query, fast.pick(qi, len(QUERIES)), fast.pick(n, 4)))


# ------------------------------------------------------------------ a repeated statement is answered from ITS execution, not from an earlier one
def _repeated(change: int) -> bool:
    from fakesnow.types import describe_as_rowtype
    from vf.session import instance, std_engine
    from vf.stubs import StubTable

    srv = _server()
    eng = std_engine()
    conn = instance(eng).connect(database="db1", schema="s1")
    saved = dict(srv.sessions)
    saved_fns = srv.run_in_threadpool, srv.to_ipc, srv.to_sf
    seen = {}

    async def direct(fn, *a, **k):
        return fn(*a, **k)

    def fake_to_sf(table, rowtype):
        seen["rowtype"] = rowtype
        return table

    srv.run_in_threadpool, srv.to_ipc, srv.to_sf = direct, (lambda t: b"ipc"), fake_to_sf
    srv.sessions.clear()
    srv.sessions["TOK"] = conn
    try:
        def ask(sql):
            resp = asyncio.run(srv.query_request(_Req({"Authorization": 'Snowflake Token="TOK"'}, {"sqlText": sql})))
            return json.loads(resp.body)

        sql = "select * from t1"
        eng.query_result = StubTable(["A", "B"], [(1, 2)])
        r1 = ask(sql)
        if [c["name"] for c in r1["data"]["rowtype"]] != ["A", "B"]:
            return False
        if change == 0:
            ask("alter table t1 add column c int")
            eng.query_result = StubTable(["A", "B", "C"], [(1, 2, 3)])
            want = ["A", "B", "C"]
        elif change == 1:
            ask("create or replace table t1 (z varchar)")
            eng.query_result = StubTable(["Z"], [("x",)])
            want = ["Z"]
        elif change == 2:
            ask("use schema s2")
            eng.query_result = StubTable(["A"], [(9,)])
            want = ["A"]
        else:
            want = ["A", "B"]
        r2 = ask(sql)
        names = [c["name"] for c in r2["data"]["rowtype"]]
        arrow_names = [c["name"] for c in seen.get("rowtype") or []]
        return r2["success"] is True and names == want and arrow_names == want
    finally:
        srv.run_in_threadpool, srv.to_ipc, srv.to_sf = saved_fns
        srv.sessions.clear()
        srv.sessions.update(saved)


@ob(
    "C17.repeated_statement_is_described_afresh",
    encodes=["fakesnow.server.query_request (rowtype / Arrow metadata per request)"],
    bounds="one login session; the same statement text sent twice, and between the two requests: ALTER TABLE ADD COLUMN | CREATE OR REPLACE with other "
    "columns | USE SCHEMA to a same-named table | nothing: rowtype and the metadata given to the Arrow encoder describe the second result",
    timeout=(200, 400),
    stubs=["K1/K2 vf.duckstub.Engine", "to_ipc / to_sf recorders"],
)
def repeated_statement(change: int) -> bool:
    """
    pre: 0 <= change <= 3
    post: _
    """
    return done(fast.native(_repeated, fast.pick(change, 4)))

# ------------------------------------------------------------------ the rowtype drives the arrow metadata the connector decodes with (shared with C06)
import obligations.C06  # noqa: E402,F401
from vf.registry import alias  # noqa: E402

alias("C17.rowtype_precision_and_scale_are_the_types", "C06.rowtype_of_every_reachable_type", "the HTTP path decodes DECIMAL values with the precision / scale of the rowtype (to_sf_schema metadata), so a wrong rowtype changes VALUES over HTTP only: DECIMAL(p,s) for every 1 <= p <= 38, 0 <= s <= p")
