"""C03 - names resolve against each connection's own current database and schema.

Engine E1, one inductive step of the session state machine: from every class of session state that connect() can
establish (and, in the thorough tier, every state one further statement can reach) the real execute() runs one
statement against the K2 catalog stub; afterwards the invariant I must hold again, names must have resolved against
the context the session reported before the step, guards must have fired exactly when a context is missing, a failing
statement must have changed nothing, and a second session must be untouched.
"""
from __future__ import annotations

import snowflake.connector.errors

from vf import fast
from vf.duckstub import validate_engine
from vf.registry import REGISTRY, SHARD, done, ob, tier
from vf.session import instance, std_engine

fast.install()

META = {
    "level": "model_checking",
    "explanation": "C03: bounded symbolic model checking of ONE transition of the session state machine (pre-state class, statement kind, "
    "names and qualification are symbolic choices); histories of any length follow by induction over invariant I, which connect() "
    "establishes (C14).  I: database_set => the database exists and the engine's current catalog is conn.database; schema_set => "
    "database_set, the schema exists and the engine setting is (conn.database, conn.schema); not database_set => not schema_set.",
    "assumptions": [
        "K2 DuckDB name resolution / SET schema semantics as modelled by vf.duckstub (validated against real DuckDB at start-up)",
        "names come from the pools db1|DB2|nodb and s1|S3|nos; DROP DATABASE is not supported by fakesnow (DuckDB parser error): outside the claim",
    ],
}

# ---- pre-states: every class of state connect() can establish: (database arg, schema arg, create_db, create_schema)
PRE = [
    (None, None, True, True),  # no context
    ("db1", None, True, True),  # database only
    ("db1", "s1", True, True),  # database and schema
    ("DB2", "s1", True, True),  # other database, schema name shared with db1
    ("db9", "s1", False, False),  # missing database, nothing created: names reported, nothing set
    ("db1", "s9", False, False),  # missing schema: database set, schema not
    ("db9", None, False, False),
    ("db1", "information_schema", True, True),
]

DBQ = [None, "db1", "DB2", "nodb"]
SCQ = [None, "s1", "S3", "nos", "s2"]

# statement templates: (kind, template); {q} is the qualification prefix built from the chosen db/schema names
KINDS = [
    "use_database",
    "use_schema",
    "create_schema",
    "drop_schema",
    "create_table",
    "select",
    "insert",
    "update",
    "delete",
    "drop_table",
    "create_view",
    "describe_table",
    "drop_table_named_like_the_schema",
    "drop_view_named_like_the_schema",
]


def validate_contracts():
    return validate_engine()


def _stmt(kind: str, db, sc, current_schema=None):
    """SQL text, and what the statement refers to: (needs_db, needs_schema, object (db, schema, name) with None = from session)."""
    q = (f"{db}." if db else "") + (f"{sc}." if sc else "")
    if kind in ("drop_table_named_like_the_schema", "drop_view_named_like_the_schema"):
        # an OBJECT that happens to carry the name of the session's current schema (it does not exist: IF EXISTS) - not the schema
        name = (current_schema or "s1").lower()
        what = "table" if "table" in kind else "view"
        return f"drop {what} if exists {q}{name}", (db is None, sc is None, name.upper())
    if kind == "use_database":
        return f"use database {db}", (False, False, None)
    if kind == "use_schema":
        return f"use schema {q[:-1]}", (db is None, False, None)
    if kind == "create_schema":
        return f"create schema {q[:-1]}", (db is None, False, None)
    if kind == "drop_schema":
        return f"drop schema {q[:-1]}", (db is None, False, None)
    t = "tnew" if kind in ("create_table", "create_view") else "t1"
    sql = {
        "create_table": f"create table {q}{t} (a int)",
        "create_view": f"create view {q}{t} as select 1 as a",
        "select": f"select a from {q}{t} where a > 1",
        "insert": f"insert into {q}{t} (a) values (1)",
        "update": f"update {q}{t} set a = 2",
        "delete": f"delete from {q}{t} where a = 3",
        "drop_table": f"drop table {q}{t}",
        "describe_table": f"describe table {q}{t}",
    }[kind]
    return sql, (db is None, sc is None, t.upper())


def _fields(conn):
    return (conn.database, conn.schema, bool(conn.database_set), bool(conn.schema_set))


def _invariant(eng, conn) -> bool:
    d, s, ds, ss = _fields(conn)
    setting = conn._duck_conn.setting
    if ss and not ds:
        return False
    if ds and not (d is not None and eng.has_db(d) and setting[0] == d):
        return False
    if ss and not (s is not None and eng.has_schema(d, s) and setting == (d, s)):
        return False
    if d is not None and d != d.upper():
        return False
    if s is not None and s != s.upper():
        return False
    return True


def _setup(pi: int):
    eng = std_engine()
    fs = instance(eng, create_db=True, create_sc=True)
    other = fs.connect(database="db2", schema="s3")
    a, b, cdb, csc = PRE[pi]
    fs.create_database_on_connect, fs.create_schema_on_connect = cdb, csc
    conn = fs.connect(database=a, schema=b)
    return eng, fs, conn, other


def _step(eng, conn, other, kind: str, db, sc) -> tuple:
    """Run one statement; return (ok, why)."""
    d0, s0, ds0, ss0 = before = _fields(conn)
    sql, (needs_db, needs_schema, obj) = _stmt(kind, db, sc, s0)
    setting0 = conn._duck_conn.setting
    snap0 = eng.user_snapshot()
    obefore = (_fields(other), other._duck_conn.setting)
    log0 = len(eng.log)
    cur = conn.cursor()
    duck = conn._duck_conn
    duck.sources, duck.last_target = [], None
    err = None
    try:
        cur.execute(sql)
    except snowflake.connector.errors.ProgrammingError as e:
        err = e
    # ---- another session is never disturbed
    if (_fields(other), other._duck_conn.setting) != obefore:
        return False, "another session changed"
    # ---- guards: a missing context is refused with 90105 / 90106 (22000) before anything reaches the engine
    if needs_db and not ds0:
        if kind == "use_schema":
            # known finding C03-use-schema-without-database: refused, but by the engine with 2043/02000 instead of 90105/22000
            ok = err is not None and err.errno in (90105, 2043) and cur.sqlstate == err.sqlstate
            return (ok and _unchanged(eng, conn, before, setting0, snap0, None)), "use schema without a current database"
        ok = err is not None and err.errno == 90105 and err.sqlstate == "22000" and cur.sqlstate == "22000"
        return (ok and _unchanged(eng, conn, before, setting0, snap0, log0)), "90105 guard"
    if needs_schema and not ss0:
        ok = err is not None and err.errno == 90106 and err.sqlstate == "22000" and cur.sqlstate == "22000"
        return (ok and _unchanged(eng, conn, before, setting0, snap0, log0)), "90106 guard"
    if err is not None and err.errno in (90105, 90106):
        return False, "guard fired although the session has the context the statement needs"
    D = (db.upper() if db else d0)
    SC = (sc.upper() if sc else s0)
    # ---- a failing statement changes nothing
    if err is not None:
        if not _unchanged(eng, conn, before, setting0, snap0, None):
            return False, "failed statement changed the session or the catalog"
        # it may only fail because what it names is missing / exists already
        exists_db = D is not None and eng.has_db(D)
        if kind == "use_database":
            return (not eng.has_db(db)), "use database failed although the database exists"
        if kind == "use_schema":
            return (not (exists_db and eng.has_schema(D, sc))), "use schema failed although it exists"
        if kind == "create_schema":
            return (not exists_db or eng.has_schema(D, sc)), "create schema failed"
        if kind == "drop_schema":
            return (not (exists_db and eng.has_schema(D, sc))), "drop schema failed although it exists"
        target_exists = exists_db and eng.has_schema(D, SC) and obj in eng.dbs[D]["schemas"].get(SC, {})
        if kind in ("create_table", "create_view"):
            return (not (exists_db and eng.has_schema(D, SC)) or target_exists), "create failed"
        return (not target_exists), f"{kind} failed although {D}.{SC}.{obj} exists"
    # ---- success: names resolved against the context the session reported before the step
    if kind == "use_database":
        want = (db.upper(), None, True, False)
        if _fields(conn) != want or duck.setting != (db.upper(), "MAIN"):
            return False, f"use database: session {_fields(conn)} engine {duck.setting}"
    elif kind == "use_schema":
        want = (D, sc.upper(), True, True)
        if _fields(conn) != want or duck.setting != (D, sc.upper()):
            return False, f"use schema: session {_fields(conn)} engine {duck.setting}"
    elif kind == "create_schema":
        if not eng.has_schema(D, sc) or _fields(conn) != before or duck.setting != setting0:
            return False, "create schema"
    elif kind == "drop_schema":
        if eng.has_schema(D, sc):
            return False, "drop schema did not drop"
        dropped_current = ss0 and (D, sc.upper()) == (d0, s0)
        want = (d0, None, ds0, False) if dropped_current else before
        if _fields(conn) != want:
            return False, f"drop schema: session {_fields(conn)} expected {want}"
    elif kind in ("drop_table_named_like_the_schema", "drop_view_named_like_the_schema"):
        if _fields(conn) != before or duck.setting != setting0 or eng.user_snapshot() != snap0:
            return False, "dropping an object named like the current schema changed the session context or the catalog"
    else:
        if kind == "describe_table":
            resolved = duck.last_described
        elif kind == "select":
            resolved = duck.sources[0] if duck.sources else None
        else:
            resolved = duck.last_target
        if resolved is None or tuple(resolved[:3]) != (D, SC, obj):
            return False, f"{kind}: engine resolved {resolved}, session context says {(D, SC, obj)}"
        if _fields(conn) != before or duck.setting != setting0:
            return False, "session changed by a statement that is not USE/DROP"
    if cur.sqlstate is not None:
        return False, "sqlstate set after success"
    return _invariant(eng, conn), "invariant I after the step"


def _unchanged(eng, conn, before, setting0, snap0, log0) -> bool:
    if _fields(conn) != before or conn._duck_conn.setting != setting0 or eng.user_snapshot() != snap0:
        return False
    return log0 is None or len(eng.log) == log0


def _one_step(pi: int, ki: int, di: int, si: int) -> bool:
    kind, db, sc = KINDS[ki], DBQ[di], SCQ[si]
    if kind == "use_database" and (db is None or sc is not None):
        return True
    if kind in ("use_schema", "create_schema", "drop_schema") and sc is None:
        return True
    if db is not None and sc is None and kind not in ("use_database",):
        return True  # db.table without schema is not a Snowflake form
    eng, fs, conn, other = _setup(pi)
    if not _invariant(eng, conn):
        return False  # connect() must establish I
    ok, why = _step(eng, conn, other, kind, db, sc)
    return ok


@ob(
    "C03.one_step_preserves_context",
    encodes=[
        "fakesnow.cursor.FakeSnowflakeCursor.execute/_transform/_execute",
        "fakesnow.transforms.set_schema",
        "fakesnow.checks.is_unqualified_table_expression",
        "fakesnow.expr.key_command",
        "fakesnow.conn.FakeSnowflakeConnection.__init__",
        "fakesnow.instance.FakeSnow.connect",
    ],
    bounds="8 pre-state classes (every combination of reported / set database and schema that connect() can establish) x 14 statement kinds "
    "(USE DATABASE, USE SCHEMA, CREATE/DROP SCHEMA, CREATE TABLE/VIEW, SELECT, INSERT, UPDATE, DELETE, DROP TABLE, DESCRIBE TABLE, DROP TABLE / VIEW IF EXISTS of an object named like the current schema) x database "
    "qualifier in {none, db1, DB2, nodb} x schema qualifier in {none, s1, S3, nos, s2}; a second live session on db2.s3; one step",
    timeout=(400, 900),
    stubs=["K2 vf.duckstub.Engine"],
    carve="C03-use-schema-without-database",
    shards=(14, 14),
)
def one_step(pi: int, ki: int, di: int, si: int) -> bool:
    """
    pre: 0 <= pi < 8 and 0 <= ki < 14 and 0 <= di < 4 and 0 <= si < 5 and (SHARD < 0 or ki == SHARD)
    post: _
    """
    P = fast.pick
    return done(fast.native(_one_step, P(pi, 8), P(ki, 14), P(di, 4), P(si, 5)))


def _two_steps(pi: int, k1: int, d1: int, s1: int, k2: int, d2: int, s2: int) -> bool:
    for k, d, s in ((k1, d1, s1), (k2, d2, s2)):
        kind, db, sc = KINDS[k], DBQ[d], SCQ[s]
        if kind == "use_database" and (db is None or sc is not None):
            return True
        if kind in ("use_schema", "create_schema", "drop_schema") and sc is None:
            return True
        if db is not None and sc is None and kind != "use_database":
            return True
    eng, fs, conn, other = _setup(pi)
    ok, why = _step(eng, conn, other, KINDS[k1], DBQ[d1], SCQ[s1])
    if not ok:
        return False
    ok, why = _step(eng, conn, other, KINDS[k2], DBQ[d2], SCQ[s2])
    return ok


@ob(
    "C03.two_step_histories",
    encodes=["as C03.one_step_preserves_context"],
    bounds="as C03.one_step_preserves_context, but the pre-state of the checked step is reached by one arbitrary session-changing statement "
    "(USE DATABASE / USE SCHEMA / CREATE SCHEMA / DROP SCHEMA) first (sanity net for the inductive argument: states such as 'current schema "
    "just dropped' or 'database switched' are covered explicitly)",
    timeout=(600, 2400),
    stubs=["K2 vf.duckstub.Engine"],
    shards=(16, 16),
)
def two_steps(pi: int, k1: int, d1: int, s1: int, k2: int, d2: int, s2: int) -> bool:
    """
    pre: 0 <= pi < 8 and 0 <= k1 < 4 and 0 <= d1 < 4 and 0 <= s1 < 5 and 0 <= k2 < 12 and 0 <= d2 < 4 and 0 <= s2 < 5
    pre: SHARD < 0 or (k1 == SHARD % 4 and k2 % 4 == SHARD // 4)
    pre: TWO_ALL or (pi in (2, 3) and d2 != 3 and s2 != 3)
    post: _
    """
    P = fast.pick
    return done(fast.native(_two_steps, P(pi, 8), P(k1, 4), P(d1, 4), P(s1, 5), P(k2, 12), P(d2, 4), P(s2, 5)))


TWO_ALL = tier(False, True)


def _real_one_step(a: dict):
    """Replay on the real stack: same pre-state and statement through real DuckDB; compare the session fields with
    CURRENT_DATABASE()/CURRENT_SCHEMA() and re-check the guard / failure behaviour."""
    from fakesnow.instance import FakeSnow

    fs = FakeSnow()
    boot = fs.connect(database="db1", schema="s1").cursor()
    for ddl in (
        "create schema db1.s2",
        "create database db2",
        "create schema db2.s1",
        "create schema db2.s3",
        "create table db1.s1.t1 (a int, b varchar)",
        "create table db1.s1.t2 (a int)",
        "create table db1.s2.t1 (a int)",
        "create table db2.s1.t1 (a int)",
    ):
        boot.execute(ddl)
    steps = [(a["ki"], a["di"], a["si"])] if "ki" in a else [(a["k1"], a["d1"], a["s1"]), (a["k2"], a["d2"], a["s2"])]
    adb, asc, cdb, csc = PRE[a["pi"]]
    fs.create_database_on_connect, fs.create_schema_on_connect = cdb, csc
    conn = fs.connect(database=adb, schema=asc)
    problems = []
    for k, d, s in steps:
        kind, db, sc = KINDS[k], DBQ[d], SCQ[s]
        before = _fields(conn)
        sql, (needs_db, needs_schema, obj) = _stmt(kind, db, sc, before[1])
        cur = conn.cursor()
        err = None
        try:
            cur.execute(sql)
        except snowflake.connector.errors.ProgrammingError as e:
            err = e
        except Exception as e:  # noqa: BLE001
            problems.append(f"{sql!r} raised engine exception {type(e).__name__}: {e}")
            continue
        if needs_db and not before[2]:
            if err is None or (err.errno != 90105 and not (kind == "use_schema" and err.errno == 2043)):
                problems.append(f"{sql!r}: expected 90105, got {err}")
        elif needs_schema and not before[3]:
            if err is None or err.errno != 90106:
                problems.append(f"{sql!r}: expected 90106, got {err}")
        elif err is not None and err.errno in (90105, 90106):
            problems.append(f"{sql!r}: guard {err.errno} fired with context {before}")
        if err is not None and _fields(conn) != before:
            problems.append(f"{sql!r} failed but session changed {before} -> {_fields(conn)}")
        if err is None:
            D = db.upper() if db else before[0]
            if kind == "use_database":
                want = (db.upper(), None, True, False)
            elif kind == "use_schema":
                want = (D, sc.upper(), True, True)
            elif kind == "drop_schema" and before[3] and (D, sc.upper()) == before[:2]:
                want = (before[0], None, before[2], False)
            else:
                want = before
            if _fields(conn) != want:
                problems.append(f"after {sql!r}: session {_fields(conn)}, expected {want}")
        cd, cs = conn._duck_conn.execute("select current_database(), current_schema()").fetchone()
        f = _fields(conn)
        if f[2] and cd.upper() != f[0]:
            problems.append(f"after {sql!r}: conn.database {f[0]} but CURRENT_DATABASE() {cd}")
        if f[3] and (cd.upper(), cs.upper()) != (f[0], f[1]):
            problems.append(f"after {sql!r}: session {f[:2]} but engine {cd}.{cs}")
        if f[3] and not f[2]:
            problems.append("schema_set without database_set")
    return bool(problems), "; ".join(problems) or "real stack: session fields agree with the engine after every step"


REGISTRY["C03.one_step_preserves_context"].real_replay = _real_one_step
REGISTRY["C03.two_step_histories"].real_replay = _real_one_step


# ------------------------------------------------------------------ bookkeeping and metadata queries fill in the session context (mechanism 4 of the property; shared with C09)
import obligations.C09  # noqa: E402,F401
from vf.registry import alias  # noqa: E402

alias("C03.metadata_bookkeeping_resolves_names_like_the_statement", "C09.metadata_rows_are_keyed_by_the_named_object", "an unqualified or schema-qualified table in a statement that records a comment / VARCHAR length denotes the object built from the session context")
alias("C03.describe_and_show_use_the_session_context", "C09.describe_and_show_scope_literals")

import obligations.C14  # noqa: E402,F401

alias("C03.context_set_at_connect_is_this_connections_own", "C14.connect_ladder", "the database/schema given at connect become THIS connection's context - created when allowed, found when present in this database, regardless of same-named schemas in other databases or of other live sessions")
