"""C15 - session variables substitute exactly, per connection.

Engine E1: the real Variables.inline_variables / update_variables and the real execute path.  The SQL text around a
reference is symbolic (any unicode); the regex calls inside fakesnow.variables are served by vf.rematch (a plain-Python
interpreter of the pattern strings the real code builds - CrossHair's own regex model crashes on their look-arounds).
"""
from __future__ import annotations

import snowflake.connector.errors

import fakesnow.variables as fvars
from vf import fast, rematch
from vf.duckstub import validate_engine
from vf.registry import REGISTRY, SHARD, done, ob, tier
from vf.session import instance, std_engine

fast.install()
fvars.re = rematch  # K10: reference matcher (forwards to the real re for concrete subjects)

META = {
    "level": "other",
    "explanation": "C15: the text before and after a reference is symbolic (any unicode, length-bounded); the set of defined variables "
    "(prefix- and case-related names), which one is referenced and in what letter case are symbolic choices; SET/UNSET/use histories "
    "over two connections x two cursors are symbolic choices through the real execute.",
    "assumptions": [
        "K10: vf.rematch interprets the pattern strings the real code builds exactly like Python's re (validated on samples at start-up)",
        "K8: SET values are stored as SQL text by design; values containing a $reference themselves are outside the claim",
        "known finding carved out: references inside single-quoted literals ('$v1', 'costs $5') - fakesnow substitutes by regex before lexing",
    ],
}

L = tier(2, 3)
KH = tier(2, 3)
QUOTE = chr(39)
DOLLAR = chr(36)

# name -> value; closed under prefix (V, V1, V10) and containing _ and digits
VARS = [("V", "1.5"), ("V1", "42"), ("V10", "'ten'"), ("AB_C", "'a\\\\b'"), ("V1X", "to_date('2020-01-01')")]
REFS = ["v", "v1", "V1", "v10", "Ab_C", "V1x"]
REF_VAR = [0, 1, 1, 2, 3, 4]  # index into VARS of the variable each spelling refers to
# sets of *other* variables defined next to the referenced one (prefixes / extensions of it first)
OTHERS = [0b00000, 0b00111, 0b10110, 0b11111]


def validate_contracts():
    return rematch.validate_rematch() + validate_engine()


def _vars(mask: int, order: int):
    v = fvars.Variables()
    items = [VARS[i] for i in range(len(VARS)) if mask & (1 << i)]
    if order:
        items = list(reversed(items))
    for name, value in items:
        v._set(name, value)
    return v, dict(items)


def _wordch(ch) -> bool:
    return ch.isalnum() or ch == "_"


def _clean(s: str) -> bool:
    """No quote (known finding region) and no dollar (would form other references) in the surrounding text."""
    for ch in s:
        if ch == QUOTE or ch == DOLLAR:
            return False
    return True


@ob(
    "C15.defined_reference_replaced_exactly",
    encodes=["fakesnow.variables.Variables.inline_variables", "fakesnow.variables.Variables._set"],
    bounds="text = pre + '$' + ref + post with pre, post any unicode strings (no quote, no dollar), |pre|,|post| <= 2 (quick) / 3 (thorough), "
    "post not starting with a word character; the referenced variable plus one of 4 sets of other variables whose names are prefixes / "
    "extensions of each other (V, V1, V10, V1X, AB_C), in both definition orders; ref = 6 spellings (lower, upper, mixed case)",
    timeout=(500, 2400),
    stubs=["K10 vf.rematch in place of re inside fakesnow.variables"],
    carve="C15-reference-inside-string-literal",
    shards=(24, 24),
)
def defined_reference(pre: str, post: str, oi: int, order: bool, ri: int) -> bool:
    """
    pre: len(pre) <= L and len(post) <= L and 0 <= oi < 4 and 0 <= ri < 6 and (SHARD < 0 or (ri == SHARD % 6 and oi == SHARD // 6))
    pre: _clean(pre) and _clean(post) and (len(post) == 0 or not _wordch(post[0]))
    post: _
    """
    mask = OTHERS[fast.pick(oi, 4)] | (1 << REF_VAR[fast.pick(ri, 6)])
    v, defined = _vars(mask, fast.pick(order, 2))
    ref = REFS[ri]
    want = pre + defined[ref.upper()] + post
    got = v.inline_variables(pre + "$" + ref + post)
    return done(got == want)


def _real_defined(a: dict):
    """Replay on the real stack: SET the variables, then inline the same text with the real re module."""
    import importlib
    import re

    import fakesnow.variables as fv

    saved = fv.re
    fv.re = re
    try:
        v, defined = _vars(OTHERS[a["oi"]] | (1 << REF_VAR[a["ri"]]), a["order"])
        ref = REFS[a["ri"]]
        try:
            got = v.inline_variables(a["pre"] + "$" + ref + a["post"])
        except Exception as e:  # noqa: BLE001
            return True, f"real re: raised {type(e).__name__}: {e}"
        want = a["pre"] + defined[ref.upper()] + a["post"]
        return got != want, f"real re: got {got!r} want {want!r}"
    finally:
        fv.re = saved
        del importlib


REGISTRY["C15.defined_reference_replaced_exactly"].real_replay = _real_defined


@ob(
    "C15.text_without_reference_unchanged",
    encodes=["fakesnow.variables.Variables.inline_variables"],
    bounds="text s: any unicode string without a quote, |s| <= 3 (quick) / 4 (thorough), in which no '$' is followed by a word character "
    "(so it contains no reference); 4 sets of defined variables (none, {V,V1,V10}, {V1,V10,V1X}, all five)",
    timeout=(400, 2400),
    stubs=["K10 vf.rematch in place of re inside fakesnow.variables"],
    carve="C15-reference-inside-string-literal",
    shards=(16, 20),
)
def no_reference(s: str, oi: int) -> bool:
    """
    pre: len(s) <= L + 1 and 0 <= oi < 4 and (SHARD < 0 or (len(s) == SHARD % (L + 2) and oi == SHARD // (L + 2)))
    pre: all(s[i] != QUOTE and (s[i] != DOLLAR or i + 1 == len(s) or not _wordch(s[i + 1])) for i in range(len(s)))
    post: _
    """
    v, defined = _vars(OTHERS[fast.pick(oi, 4)], 0)
    return done(v.inline_variables(s) == s)


@ob(
    "C15.undefined_reference_raises",
    encodes=["fakesnow.variables.Variables.inline_variables (undefined-variable check)"],
    bounds="text = pre + '$' + ref + post as in C15.defined_reference_replaced_exactly, ref NOT among the defined subset (but its prefixes "
    "and extensions may be): must raise ProgrammingError \"Session variable '$REF' does not exist\" with REF upper-cased",
    timeout=(500, 2400),
    stubs=["K10 vf.rematch in place of re inside fakesnow.variables"],
    carve="C15-reference-inside-string-literal",
    shards=(24, 24),
)
def undefined_reference(pre: str, post: str, oi: int, ri: int) -> bool:
    """
    pre: len(pre) <= L and len(post) <= L and 0 <= oi < 4 and 0 <= ri < 6 and (SHARD < 0 or (ri == SHARD % 6 and oi == SHARD // 6))
    pre: _clean(pre) and _clean(post) and (len(post) == 0 or not _wordch(post[0]))
    post: _
    """
    mask = OTHERS[fast.pick(oi, 4)] & ~(1 << REF_VAR[fast.pick(ri, 6)])
    v, defined = _vars(mask, 0)
    ref = REFS[ri]
    try:
        v.inline_variables(pre + "$" + ref + post)
    except snowflake.connector.errors.ProgrammingError as e:
        return done(e.msg is not None and ("Session variable '$" + ref.upper() + "' does not exist") in e.msg)
    return done(False)


# ------------------------------------------------------------------ histories through the real execute
OPS = [
    ("set", "v1", "1"),
    ("set", "V1", "2"),
    ("set", "v10", "'x'"),
    ("unset", "v1", None),
    ("use", "v1", None),
    ("use", "V10", None),
]


def _history(c0: int, o0: int, c1: int, o1: int, c2: int, o2: int, k: int) -> bool:
    """Apply k steps, each on (connection, cursor) c in 0..3 = A.cur1, A.cur2, B.cur1, B.cur2, against a reference map per connection."""
    eng = std_engine()
    fs = instance(eng)
    conns = [fs.connect(database="db1", schema="s1"), fs.connect(database="db1", schema="s1")]
    curs = [conns[0].cursor(), conns[0].cursor(), conns[1].cursor(), conns[1].cursor()]
    model = [{}, {}]
    for c, o in [(c0, o0), (c1, o1), (c2, o2)][:k]:
        kind, name, val = OPS[o]
        cur, m = curs[c], model[c // 2]
        base = len(eng.log)
        if kind == "set":
            cur.execute(f"set {name} = {val}")
            m[name.upper()] = val
            if cur.fetchall() != [("Statement executed successfully.",)]:
                return False
        elif kind == "unset":
            if name.upper() not in m:
                continue  # UNSET of an undefined variable: outside the claim
            cur.execute(f"unset {name}")
            del m[name.upper()]
        else:
            try:
                cur.execute(f"select ${name} as x from t1")
                seen = [sql for _, sql in eng.log[base:]]
                if name.upper() not in m:
                    return False  # must have raised
                if not any(m[name.upper()] in sql for sql in seen):
                    return False
            except snowflake.connector.errors.ProgrammingError as e:
                if name.upper() in m:
                    return False
                if f"Session variable '${name.upper()}' does not exist" not in (e.msg or ""):
                    return False
                if len(eng.log) != base:
                    return False  # nothing may reach the engine
    # final: the mapping is per connection, shared by its cursors
    for ci, conn in enumerate(conns):
        vs = getattr(conn.variables, "_variables", None)  # private: only compared when it still exists under this name
        if vs is not None and dict(vs) != model[ci]:
            return False
    return True


@ob(
    "C15.set_unset_use_histories",
    encodes=["fakesnow.cursor.FakeSnowflakeCursor.execute/_inline_variables", "fakesnow.transforms.update_variables", "fakesnow.variables.Variables.update_variables/is_variable_modifier"],
    bounds="histories of 1..2 (quick) / 1..3 (thorough) steps, each one of {SET v1=1, SET V1=2, SET v10='x', UNSET v1, use $v1, use $V10} on any of 2 connections x 2 cursors "
    "of one instance (6^3 x 4^3 histories)",
    timeout=(400, 900),
    stubs=["K1/K2 vf.duckstub.Engine"],
    shards=(6, 6),
)
def histories(c0: int, o0: int, c1: int, o1: int, c2: int, o2: int, k: int) -> bool:
    """
    pre: 1 <= k <= KH and 0 <= c0 < 4 and 0 <= c1 < 4 and 0 <= c2 < 4 and 0 <= o0 < 6 and 0 <= o1 < 6 and 0 <= o2 < 6
    pre: (k >= 2 or (c1 == 0 and o1 == 0)) and (k >= 3 or (c2 == 0 and o2 == 0)) and (SHARD < 0 or o0 == SHARD) and c0 in (0, 2)
    post: _
    """
    P = fast.pick
    return done(fast.native(_history, P(c0, 4), P(o0, 6), P(c1, 4), P(o1, 6), P(c2, 4), P(o2, 6), P(k, 4)))


# ------------------------------------------------------------------ the same statement text, before and after the variable changes
MODS = ["unset", "set_other_value", "none", "set_on_other_connection", "unset_then_set", "set_other_case"]
USES = ["select $v1 as x from t1", "select a from t1 where a = $V1", "insert into t2 values ($v1)"]


def _same_text_twice(mi: int, ui: int, other_cursor: bool) -> bool:
    eng = std_engine()
    fs = instance(eng)
    A, B = fs.connect(database="db1", schema="s1"), fs.connect(database="db1", schema="s1")
    c1, c2, cb = A.cursor(), A.cursor(), B.cursor()
    c1.execute("set v1 = 5")
    text = USES[ui]

    def run(cur):
        base = len(eng.log)
        try:
            cur.execute(text)
        except snowflake.connector.errors.ProgrammingError as e:
            return ("error", e.msg or "", len(eng.log) - base)
        return ("ok", " ".join(str(q) for _c, q in eng.log[base:]), len(eng.log) - base)

    first = run(c1)
    if first[0] != "ok" or "5" not in first[1]:
        return False
    mod = MODS[mi]
    want = "5"
    if mod == "unset":
        c2.execute("unset v1")
        want = None
    elif mod == "set_other_value":
        c2.execute("set v1 = 9")
        want = "9"
    elif mod == "set_on_other_connection":
        cb.execute("set v1 = 9")
    elif mod == "unset_then_set":
        c1.execute("unset v1")
        c2.execute("set v1 = 3")
        want = "3"
    elif mod == "set_other_case":
        c2.execute("SET V1 = 7")
        want = "7"
    second = run(c2 if other_cursor else c1)
    if want is None:
        return second[0] == "error" and "Session variable '$V1' does not exist" in second[1] and second[2] == 0
    return second[0] == "ok" and want in second[1] and ("5" not in second[1] or want == "5")


@ob(
    "C15.same_text_after_the_variable_changed",
    encodes=["fakesnow.cursor.FakeSnowflakeCursor.execute/_inline_variables", "fakesnow.variables.Variables (state kept between statements)"],
    bounds="SET v1 = 5; a statement using $v1 (3 forms); then one of {UNSET, SET to another value, nothing, SET on ANOTHER connection, UNSET then SET, SET in "
    "another letter case}; then the byte-identical statement again on the same or another cursor of the connection: it uses the value now in force, or "
    "raises the undefined-variable error without reaching the engine",
    timeout=(200, 400),
    stubs=["K1/K2 vf.duckstub.Engine"],
)
def same_text_twice(mi: int, ui: int, other_cursor: bool) -> bool:
    """
    pre: 0 <= mi < len(MODS) and 0 <= ui < len(USES)
    post: _
    """
    return done(fast.native(_same_text_twice, fast.pick(mi, len(MODS)), fast.pick(ui, len(USES)), bool(fast.pick(other_cursor, 2))))


# ------------------------------------------------------------------ the value is inserted verbatim also when the statement carries bound parameters
PCT_VALUES = ["'50%'", "17 % 5", "'a%sb'", "'%(p)s and %%'", "'plain'", "'q ? %d'"]


def _value_with_params(vi: int, style_q: bool, as_dict: bool, many: bool) -> bool:
    import snowflake.connector

    from vf.session import instance, std_engine

    val = PCT_VALUES[vi]
    style = "qmark" if style_q else "pyformat"
    if style_q and as_dict:
        return True  # qmark takes sequences only

    def session():
        eng = std_engine()
        saved = snowflake.connector.paramstyle
        snowflake.connector.paramstyle = style
        try:
            conn = instance(eng).connect(database="db1", schema="s1")
        finally:
            snowflake.connector.paramstyle = saved
        cur = conn.cursor()
        cur.execute(f"set v = {val}")
        return eng, cur

    ph = "?" if style_q else ("%(p)s" if as_dict else "%s")
    params = {"p": 7} if as_dict else (7,)
    eng1, c1 = session()
    base1 = len(eng1.log)
    if many:
        c1.executemany(f"select a, $v as c from t1 where a = {ph}", [params])
    else:
        c1.execute(f"select a, $v as c from t1 where a = {ph}", params)
    got = [(q, None) for _c, q in eng1.log[base1:] if isinstance(q, str) and q.upper().startswith("SELECT A")]
    # reference: the same statement with the parameter written as a literal and no parameters
    eng2, c2 = session()
    base2 = len(eng2.log)
    c2.execute("select a, $v as c from t1 where a = 7")
    want = [q for _c, q in eng2.log[base2:] if isinstance(q, str) and q.upper().startswith("SELECT A")]
    if len(got) != 1 or len(want) != 1:
        return False
    text = got[0][0]
    if style_q:
        text = "7".join(text.rsplit("?", 1))  # the placeholder is the last '?' of the statement (the value may contain one too)
    return text == want[0]


@ob(
    "C15.value_is_verbatim_next_to_bound_parameters",
    encodes=["fakesnow.cursor.FakeSnowflakeCursor.execute (variables are inlined, then parameters are bound)", "FakeSnowflakeCursor._rewrite_with_params", "fakesnow.variables.Variables.inline_variables"],
    bounds="6 variable values containing %, %s, %(p)s, %%, %d, ? (string literals and an arithmetic expression) x paramstyle pyformat / qmark x parameters as tuple / dict x "
    "execute / executemany: the engine receives the same statement as when the parameter is written as a literal (the value is neither %-formatted nor doubled)",
    timeout=(200, 400),
    stubs=["K1/K2 vf.duckstub.Engine"],
)
def value_with_params(vi: int, style_q: bool, as_dict: bool, many: bool) -> bool:
    """
    pre: 0 <= vi < len(PCT_VALUES)
    post: _
    """
    P = fast.pick
    return done(fast.native(_value_with_params, P(vi, len(PCT_VALUES)), bool(P(style_q, 2)), bool(P(as_dict, 2)), bool(P(many, 2))))


def _real_value_with_params(a: dict):
    import snowflake.connector

    from fakesnow.instance import FakeSnow

    val = PCT_VALUES[a["vi"]]
    style = "qmark" if a["style_q"] else "pyformat"
    saved = snowflake.connector.paramstyle
    snowflake.connector.paramstyle = style
    try:
        conn = FakeSnow().connect(database="db1", schema="s1")
    finally:
        snowflake.connector.paramstyle = saved
    cur = conn.cursor()
    cur.execute("create table t1 (a int)")
    cur.execute("insert into t1 values (7)")
    cur.execute(f"set v = {val}")
    ph = "?" if a["style_q"] else ("%(p)s" if a["as_dict"] else "%s")
    params = {"p": 7} if a["as_dict"] else (7,)
    want = cur.execute("select a, $v as c from t1 where a = 7").fetchall()
    try:
        if a["many"]:
            cur.executemany(f"select a, $v as c from t1 where a = {ph}", [params])
            got = cur.fetchall()
        else:
            got = cur.execute(f"select a, $v as c from t1 where a = {ph}", params).fetchall()
    except Exception as e:  # noqa: BLE001
        return True, f"real stack: with a bound parameter the statement raised {type(e).__name__}: {str(e)[:100]} (without: {want})"
    return got != want, f"real stack: with a bound parameter {got}, with the literal {want}"


REGISTRY["C15.value_is_verbatim_next_to_bound_parameters"].real_replay = _real_value_with_params


# ------------------------------------------------------------------ independence of what happened before (shared harness)
import obligations.shared_independence as _indep  # noqa: E402

_IND_PRIORS = (9, 11)


@ob(
    "C15.unrelated_variables_do_not_matter",
    encodes=["fakesnow.cursor.FakeSnowflakeCursor.execute/_transform/_execute/description/fetch*", "fakesnow.conn / fakesnow.variables / fakesnow.transforms (any state kept between statements)"],
    bounds="prior activity: SET of an unrelated variable on this connection, or activity incl. SET of the subject's variable name on ANOTHER connection; then one of " + str(len(_indep.SUBJECTS)) + " statements (queries, DML, DDL with metadata, COMMENT, "
    "DESCRIBE, SHOW, USE, SET, MERGE, seeded RANDOM, BEGIN, a nop_regexes match, two failing statements, TRUNCATE) on the same or another cursor, tuple or "
    "dict: SQL reaching the engine, rows, rowcount, description names, error, sqlstate, session context and the statement's own effect on catalog, "
    "metadata and variables equal those on a fresh identical session",
    timeout=(300, 600),
    stubs=["K1/K2/K6 vf.duckstub.Engine"],
    shards=(11, 11),
)
def independence(si: int, pk: int, as_dict: bool, same_cursor: bool) -> bool:
    """
    pre: 0 <= si < len(_indep.SUBJECTS) and 0 <= pk < len(_IND_PRIORS) and (SHARD < 0 or si % 11 == SHARD)
    post: _
    """
    from vf import fast as _f

    return done(_f.native(_indep.independent, _f.pick(si, len(_indep.SUBJECTS)), _IND_PRIORS[_f.pick(pk, len(_IND_PRIORS))], bool(_f.pick(as_dict, 2)), bool(_f.pick(same_cursor, 2))))
