"""C18 - with db_path, committed state survives exit, exceptions and kills.

Durability of one committed DuckDB call is DuckDB's (contract K9).  fakesnow decides (i) WHICH FILE a database lives in -
the connect path and the CREATE DATABASE path must agree, and in-memory instances must never build a path - and (ii) HOW MANY
separately committed engine calls one statement is: a statement that changes state in a single engine call is all-or-nothing
under K9 whatever the kill point; statements that need several calls are torn by a kill between them (listed findings).
Engine E1: real connect / execute against the catalog stub with a crash injected at a symbolic engine-call index.
"""
from __future__ import annotations

from pathlib import Path

from vf import fast
from vf.duckstub import validate_engine
from vf.registry import REGISTRY, SHARD, done, ob
from vf.session import instance, std_engine

fast.install()

META = {
    "level": "fault_enumeration",
    "explanation": "C18: crash point (index of the engine call at which the process dies), statement kind, database-name spelling and db_path form "
    "are symbolic inputs of the real connect/execute code run against a DuckDB stand-in; recovery semantics are K9's.",
    "assumptions": [
        "K9 DuckDB durability: every completed autocommit call survives a kill, an open transaction does not, one call is atomic",
        "K2 catalog stub (validated against real DuckDB at start-up)",
        "known findings carved out: multi-call statements (CREATE TABLE with COMMENT / VARCHAR lengths, COMMENT ON, ALTER .. SET COMMENT, CREATE DATABASE "
        "+ bootstrap, MERGE, connect bootstrap) are torn by a kill between their calls; quoted mixed-case database names map to different files on the "
        "connect and CREATE DATABASE paths",
    ],
}

NAMES = ["db9", "DB9", "Db9", "my_db", '"DB9"']
PATHS = [None, "/data/fs", "rel/dir", Path("/data/fs")]


def validate_contracts():
    return validate_engine()


def _file_coherence(ni: int, pi: int, exists_ok: bool) -> bool:
    name, db_path = NAMES[ni], PATHS[pi]
    folded = name.strip('"').upper() if not name.startswith('"') else name.strip('"')
    # path 1: connect(database=name) auto-creates
    eng1 = std_engine(tables=False)
    fs1 = instance(eng1, db_path=db_path)
    fs1.connect(database=name.strip('"'))
    f1 = eng1.dbs[folded.upper()]["file"]
    # path 2: CREATE DATABASE name on a session of another instance with the same db_path
    eng2 = std_engine(tables=False)
    fs2 = instance(eng2, db_path=db_path)
    cur = fs2.connect(database="db1", schema="s1").cursor()
    cur.execute(f"create database {'if not exists ' if exists_ok else ''}{name}")
    f2 = eng2.dbs[folded.upper()]["file"]
    if db_path is None:
        return f1 == ":memory:" and f2 == ":memory:"
    want = f"{Path(db_path) / folded.upper()}.db"
    return f1 == want and f2 == want


@ob(
    "C18.database_file_is_the_same_on_both_paths",
    encodes=["fakesnow.conn.FakeSnowflakeConnection.__init__ (ATTACH target)", "fakesnow.transforms.create_database", "fakesnow.instance.FakeSnow.connect"],
    bounds="5 spellings of a database name (lower, upper, mixed, with underscore, quoted upper) x db_path in {None, absolute str, relative str, Path} x "
    "CREATE DATABASE with/without IF NOT EXISTS: both paths attach <db_path>/<UPPER NAME>.db, or ':memory:' when db_path is None",
    timeout=(200, 400),
    stubs=["K2 vf.duckstub.Engine (records the ATTACH target)"],
    carve="C18-quoted-mixed-case-database-file",
)
def file_coherence(ni: int, pi: int, exists_ok: bool) -> bool:
    """
    pre: 0 <= ni < len(NAMES) and 0 <= pi < len(PATHS)
    post: _
    """
    return done(fast.native(_file_coherence, fast.pick(ni, len(NAMES)), fast.pick(pi, len(PATHS)), bool(fast.pick(exists_ok, 2))))


class Crash(BaseException):
    """The process is killed at this engine call (not an Exception: nothing in fakesnow may swallow it)."""


# statements that change state through exactly one engine call (all-or-nothing under K9)
SINGLE = [
    "insert into t1 (a) values (1)",
    "update t1 set a = 2",
    "delete from t1",
    "truncate table t1",
    "create table tnew (a int, b float)",
    "create table tnew as select a from t1",
    "create or replace table t2 (a int)",
    "create view vnew as select a from t1",
    "drop table t2",
    "drop view if exists nov",
    "alter table t1 add column z int",
    "alter table t1 rename to t9",
    "create schema snew",
    "drop schema s2",
    "use schema s2",
    "use database db2",
    "set v1 = 5",
    "begin",
    "select a from t1",
    "alter table t1 cluster by (a)",
]
# known multi-call statements (listed finding C18-multi-call-statements-are-torn): state changes in more than one engine call
MULTI = [
    "create table tc (a int) comment = 'c'",
    "create table tv (a varchar(10))",
    "comment on table t1 is 'c'",
    "alter table t1 set comment = 'c'",
    "create database dnew",
    "merge into t1 using t2 on t1.a = t2.a when matched then delete",
]


def _state(eng):
    return (eng.snapshot(), tuple(sorted(eng.globals.items())))


def _crash(si: int, k: int) -> bool:
    """Kill at the k-th engine call (0-based) of the statement; the surviving state must be the pre- or the post-state."""
    sql = SINGLE[si]
    # reference run: how many engine calls, and the post-state
    eng0 = std_engine()
    c0 = instance(eng0).connect(database="db1", schema="s1")
    base0 = len(eng0.log)
    pre = _state(eng0)
    c0.cursor().execute(sql)
    ncalls = len(eng0.log) - base0
    post = _state(eng0)
    if k >= ncalls:
        return True
    eng = std_engine()
    conn = instance(eng).connect(database="db1", schema="s1")
    if _state(eng) != pre:
        return False
    seen = {"n": 0}

    def hook(stub, q):
        if seen["n"] == k:
            raise Crash()
        seen["n"] += 1

    eng.hooks.append(hook)
    try:
        conn.cursor().execute(sql)
        return False  # the crash must propagate
    except Crash:
        pass
    after = _state(eng)
    return after == pre or after == post


@ob(
    "C18.single_call_statements_are_all_or_nothing",
    encodes=["fakesnow.cursor.FakeSnowflakeCursor.execute/_execute (number and order of state-changing engine calls per statement)"],
    bounds="20 statement kinds (DML, TRUNCATE, CREATE/DROP/ALTER TABLE|VIEW|SCHEMA, CTAS, USE, SET, BEGIN, SELECT, cluster-by no-op) x kill at engine "
    "call index 0..5 of the statement: the engine state after the kill equals the state before the statement or the state after it",
    timeout=(300, 600),
    stubs=["K2 vf.duckstub.Engine with a crash hook", "K9"],
    carve="C18-multi-call-statements-are-torn",
    shards=(10, 10),
)
def crash_points(si: int, k: int) -> bool:
    """
    pre: 0 <= si < len(SINGLE) and 0 <= k <= 5 and (SHARD < 0 or si % 10 == SHARD)
    post: _
    """
    return done(fast.native(_crash, fast.pick(si, len(SINGLE)), fast.pick(k, 6)))


def _multi_is_only_listed(si: int) -> bool:
    """The listed multi-call statements are indeed torn by some kill point (otherwise the finding list is stale and should shrink):
    this obligation only asserts that every state-changing call they make is one the finding names (no new hidden step)."""
    sql = MULTI[si]
    eng = std_engine()
    conn = instance(eng).connect(database="db1", schema="s1")
    base = len(eng.log)
    w0 = len(eng.writes)
    conn.cursor().execute(sql)
    calls = [q for _c, q in eng.log[base:]]
    # no engine call of these statements may start, commit or roll back a transaction behind the user's back
    for q in calls:
        if str(q).strip().split()[0].upper() in ("COMMIT", "ROLLBACK"):
            return False
    return len(calls) >= 2 and len(eng.writes) >= w0


@ob(
    "C18.multi_call_statements_have_no_hidden_commit",
    encodes=["fakesnow.cursor.FakeSnowflakeCursor.execute/_execute", "fakesnow.transforms_merge.merge"],
    bounds="the 6 statement kinds that need several engine calls (listed finding): none of their calls is a COMMIT/ROLLBACK that would also "
    "commit or discard the user's open work",
    timeout=(120, 300),
    stubs=["K2 vf.duckstub.Engine"],
)
def multi_no_hidden_commit(si: int) -> bool:
    """
    pre: 0 <= si < len(MULTI)
    post: _
    """
    return done(fast.native(_multi_is_only_listed, fast.pick(si, len(MULTI))))


# ------------------------------------------------------------------ patch() closes the instance's database files on every exit path (shared with C20)
import obligations.C20  # noqa: E402,F401
from vf.registry import alias  # noqa: E402

alias("C18.patch_closes_the_instance_on_every_exit", "C20.patch_restores_everything", "the instance connection (hence every attached database file) is closed on normal exit, on an exception in the body and on a set-up failure, so a later patch() on the same db_path starts from the committed state")

# ------------------------------------------------------------------ uncommitted work - including what fakesnow records about it - goes through the session's transaction (shared with C13)
import obligations.C13  # noqa: E402,F401

alias("C18.uncommitted_work_is_wholly_inside_the_transaction", "C13.statement_routing_one_step", "every engine write of a statement issued inside an open transaction - the statement's own and fakesnow's comment / length bookkeeping - goes through the session's own engine connection, so a kill or ROLLBACK before COMMIT leaves none of it behind (K9)")

import obligations.C19  # noqa: E402,F401

alias("C18.acknowledged_commits_are_real", "C19.refused_commit_is_reported", "durability starts at COMMIT: a COMMIT the engine refused (and rolled back) must not be acknowledged, or a later process misses rows the session was told are committed")
