"""C14 - connect() does what its options say in every configuration.

Engine E1: the real FakeSnow / FakeSnowflakeConnection.__init__ run under CrossHair against the K2 catalog
stub (vf.duckstub).  Every configuration variable is a symbolic input; the solver explores the product.
"""
from __future__ import annotations

from vf import fast
from vf.duckstub import Engine, validate_engine
from vf.registry import REGISTRY, SHARD, done, ob
from vf.session import instance

fast.install()

META = {
    "level": "other",
    "explanation": "C14: connect arguments, letter case, both auto-create flags, storage mode, pre-existing database/schema and a "
    "second live session are symbolic inputs of the real connect ladder run against a catalog stub.",
    "assumptions": [
        "K2 DuckDB catalog contract as modelled by vf.duckstub (validated against real DuckDB at start-up: exception class per "
        "cause, information_schema.schemata existence answers, SET schema semantics)",
        "database/schema names come from the pools DB1|Db1|db1 and S1|s1|information_schema|INFORMATION_SCHEMA; other names are outside the claim",
    ],
}

DBS = [None, "DB1", "db1", "Db1"]
SCS = [None, "S1", "s1", "information_schema", "INFORMATION_SCHEMA", "main"]


def validate_contracts():
    return validate_engine()


def _bootstrap_objects(db: str) -> dict:
    """What an earlier fakesnow process left inside the database file: its metadata tables/views (holding the user's comments and lengths)."""
    import fakesnow.info_schema as finfo
    import fakesnow.macros as fmac

    tmp = Engine()
    c = tmp.connect()
    c.execute(f"ATTACH DATABASE ':memory:' AS {db}")
    c.execute(finfo.creation_sql(db))
    c.execute(fmac.creation_sql(db))
    return tmp.dbs[db]["schemas"]


def _reattach(create_sc: bool, sc_exists: bool, si: int) -> bool:
    """db_path mode: the database FILE exists (written by an earlier process) but is not attached in this instance.
    connect() must attach it and leave every object in it - including fakesnow's own metadata tables - as it was."""
    eng = Engine()
    fs = instance(eng, True, create_sc, "/data/fs")
    content = _bootstrap_objects("DB1")
    if sc_exists:
        content["S1"] = {}
    from vf.duckstub import Tbl

    content.setdefault("S1" if sc_exists else "MAIN", {})["KEPT"] = Tbl([("A", "BIGINT")])
    eng.disk["/data/fs/DB1.db"] = content
    before = {(s, n): o for s, objs in content.items() for n, o in objs.items()}
    schema = SCS[si]
    conn = fs.connect(database="db1", schema=schema)
    if not conn.database_set or eng.dbs.get("DB1", {}).get("file") != "/data/fs/DB1.db":
        return False
    after = {(s, n): o for s, objs in eng.dbs["DB1"]["schemas"].items() for n, o in objs.items()}
    for key, obj in before.items():
        if after.get(key) is not obj:
            return False  # an existing object was dropped or replaced by connecting
    return True


def _ladder(di: int, si: int, create_db: bool, create_sc: bool, db_exists: bool, sc_exists: bool, with_path: bool, other: bool, elsewhere: bool = False):
    eng = Engine()
    db_path = "/data/fs" if with_path else None
    fs = instance(eng, create_db, create_sc, db_path)
    # pre-existing state
    eng.add_db("DB2")
    eng.add_schema("DB2", "S2")
    eng.add_table("DB2", "S2", "KEEP")
    if elsewhere:
        # ANOTHER database already has a schema of the requested name: that says nothing about this database
        eng.add_schema("DB2", "S1")
        eng.add_table("DB2", "S1", "ELSEWHERE")
    if db_exists:
        eng.add_db("DB1", file="/data/fs/DB1.db" if with_path else ":memory:")
        if sc_exists:
            eng.add_schema("DB1", "S1")
            eng.add_table("DB1", "S1", "T0")
    other_conn = None
    if other:
        other_conn = fs.connect(database="DB2", schema="S2")
    before = eng.user_snapshot()
    other_setting = other_conn._duck_conn.setting if other_conn else None
    database, schema = DBS[di], SCS[si]

    conn = fs.connect(database=database, schema=schema)

    D = database.upper() if database else None
    SC = schema.upper() if schema else None
    if conn.database != D or conn.schema != SC:
        return False, "reported names"
    if conn._duck_conn.in_tx:
        return False, "connect() handed out a session with a transaction left open"
    # what may have been created
    exp_db_after = db_exists or (create_db and D is not None)
    created_db = exp_db_after and not db_exists
    is_builtin_schema = SC in ("INFORMATION_SCHEMA", "MAIN")
    sc_pre = (db_exists and sc_exists and SC == "S1") or (exp_db_after and is_builtin_schema)
    exp_sc_after = D is not None and SC is not None and exp_db_after and (sc_pre or create_sc)
    if D is None:
        exp_db_after = False
    if eng.has_db("DB1") != (db_exists or created_db and D == "DB1"):
        return False, "database existence after connect"
    if D and SC and eng.has_schema("DB1", SC) != exp_sc_after:
        return False, "schema existence after connect"
    if bool(conn.database_set) != bool(D and exp_db_after):
        return False, "database_set"
    if bool(conn.schema_set) != bool(exp_sc_after):
        return False, "schema_set"
    setting = conn._duck_conn.setting
    if conn.schema_set:
        if setting != (D, SC):
            return False, "engine setting != reported context"
    elif conn.database_set:
        if setting != (D, "MAIN"):
            return False, "engine setting != database.main"
    elif setting != ("MEMORY", "MAIN"):
        return False, "engine setting changed without a current database"
    if created_db:
        want = f"/data/fs/{D}.db" if with_path else ":memory:"
        if eng.dbs["DB1"]["file"] != want:
            return False, "attach target"
    # nothing else: compare user-visible catalog with the expected one
    after = eng.user_snapshot()
    # rebuild expectation from 'before'
    bdbs = {d: (f, dict(s)) for d, f, s in before[0]}
    if created_db:
        bdbs["DB1"] = (f"/data/fs/{D}.db" if with_path else ":memory:", {"MAIN": ()})
    if D and SC and exp_sc_after and not sc_pre:
        f, s = bdbs["DB1"]
        s = dict(s)
        s[SC] = ()
        bdbs["DB1"] = (f, s)
    exp_after = tuple((d, f, tuple(sorted(s.items()))) for d, (f, s) in sorted(bdbs.items()))
    if after[0] != exp_after or after[1] != before[1]:
        return False, f"catalog after connect differs from what the options allow: {after[0]} vs {exp_after}"
    if other_conn is not None:
        if other_conn._duck_conn.setting != other_setting or other_conn.database != "DB2" or other_conn.schema != "S2":
            return False, "another session was disturbed"
        if other_conn._duck_conn is conn._duck_conn:
            return False, "sessions share one engine connection"
    return True, "ok"


@ob(
    "C14.connect_ladder",
    encodes=["fakesnow.instance.FakeSnow.__init__/connect", "fakesnow.conn.FakeSnowflakeConnection.__init__", "fakesnow.info_schema.creation_sql", "fakesnow.macros.creation_sql"],
    bounds="complete product: database in {absent, DB1, db1, Db1} x schema in {absent, S1, s1, information_schema, INFORMATION_SCHEMA, main} "
    "x create_database_on_connect x create_schema_on_connect x database pre-exists x schema pre-exists x db_path set/unset x "
    "a second live session present or not x a schema of the requested name present in ANOTHER database or not; sharded by the database argument",
    timeout=(300, 900),
    stubs=["K2 vf.duckstub.Engine (catalog, per-connection schema setting)"],
    shards=(4, 4),
)
def connect_ladder(di: int, si: int, create_db: bool, create_sc: bool, db_exists: bool, sc_exists: bool, with_path: bool, other: bool, elsewhere: bool) -> bool:
    """
    pre: 0 <= di <= 3 and 0 <= si <= 5 and (SHARD < 0 or di == SHARD) and (db_exists or not sc_exists)
    post: _
    """
    ok, _why = _ladder(di, si, create_db, create_sc, db_exists, sc_exists, with_path, other, elsewhere)
    return done(ok)


@ob(
    "C14.reattaching_a_database_file_keeps_its_content",
    encodes=["fakesnow.conn.FakeSnowflakeConnection.__init__ (ATTACH of an existing file, metadata bootstrap)", "fakesnow.info_schema.creation_sql", "fakesnow.macros.creation_sql"],
    bounds="db_path mode, the database file exists on disk (with the metadata objects an earlier fakesnow process created, a user table, with/without the "
    "requested schema) and is not attached yet; schema argument over the 6-name pool; create_schema_on_connect on/off: connect attaches that file and "
    "every object in it keeps its identity (nothing dropped, replaced or re-created)",
    timeout=(200, 400),
    stubs=["K2 vf.duckstub.Engine with on-disk database files"],
)
def reattach(create_sc: bool, sc_exists: bool, si: int) -> bool:
    """
    pre: 0 <= si <= 5
    post: _
    """
    from vf import fast

    return done(fast.native(_reattach, bool(fast.pick(create_sc, 2)), bool(fast.pick(sc_exists, 2)), fast.pick(si, 6)))


def _real_reattach(a: dict):
    import tempfile

    from fakesnow.instance import FakeSnow

    with tempfile.TemporaryDirectory() as td:
        fs = FakeSnow(db_path=td)
        # the earlier process spelled the database name in another letter case: it is still the same database (and file)
        cur = fs.connect(database="DB1", schema="s1").cursor()
        cur.execute("create table kept (a varchar(7)) comment = 'keep me'")
        cur.execute("insert into kept values ('x')")
        fs.duck_conn.close()
        fs2 = FakeSnow(db_path=td, create_schema_on_connect=a["create_sc"])
        cur2 = fs2.connect(database="db1", schema="s1").cursor()
        rows = cur2.execute("select a from kept").fetchall()
        comment = cur2.execute("select comment from information_schema.tables where table_name = 'KEPT'").fetchall()
        length = cur2.execute("select character_maximum_length from information_schema.columns where table_name = 'KEPT'").fetchall()
        fs2.duck_conn.close()
    bad = rows != [("x",)] or comment != [("keep me",)] or length != [(7,)]
    return bad, f"real stack after reconnecting from a new instance: rows {rows}, comment {comment}, length {length}"


def _real_ladder(a: dict):
    """Real-stack replay: same configuration on real DuckDB through FakeSnow.connect."""
    import tempfile

    from fakesnow.instance import FakeSnow

    with tempfile.TemporaryDirectory() as td:
        fs = FakeSnow(
            create_database_on_connect=a["create_db"],
            create_schema_on_connect=a["create_sc"],
            db_path=td if a["with_path"] else None,
        )
        pre = fs.duck_conn.cursor()
        if a.get("elsewhere"):
            from fakesnow.conn import FakeSnowflakeConnection as _C

            _C(fs.duck_conn.cursor(), "DB2", "S1", create_database=True, create_schema=True, db_path=fs.db_path)
        if a["db_exists"]:
            # a pre-existing database as fakesnow itself would have created it
            from fakesnow.conn import FakeSnowflakeConnection

            FakeSnowflakeConnection(
                fs.duck_conn.cursor(), "DB1", "S1" if a["sc_exists"] else None, create_database=True, create_schema=True, db_path=fs.db_path
            )
        database, schema = DBS[a["di"]], SCS[a["si"]]
        try:
            conn = fs.connect(database=database, schema=schema)
        except Exception as e:  # noqa: BLE001
            return True, f"real connect raised {type(e).__name__}: {e}"
        D = database.upper() if database else None
        SC = schema.upper() if schema else None
        has_db = bool(D and pre.execute(f"select 1 from information_schema.schemata where upper(catalog_name)='{D}'").fetchone())
        has_sc = bool(
            D and SC and pre.execute(
                f"select 1 from information_schema.schemata where upper(catalog_name)='{D}' and upper(schema_name)='{SC}'"
            ).fetchone()
        )
        exp_db = a["db_exists"] or (a["create_db"] and D is not None)
        builtin = SC in ("INFORMATION_SCHEMA", "MAIN")
        sc_pre = (a["db_exists"] and a["sc_exists"] and SC == "S1") or (exp_db and builtin)
        exp_sc = D is not None and SC is not None and exp_db and (sc_pre or a["create_sc"])
        problems = []
        if D and has_db != exp_db:
            problems.append(f"database exists={has_db} expected {exp_db}")
        if D and SC and has_sc != exp_sc:
            problems.append(f"schema exists={has_sc} expected {exp_sc}")
        if bool(conn.database_set) != bool(D and exp_db):
            problems.append(f"database_set={conn.database_set}")
        if bool(conn.schema_set) != bool(exp_sc):
            problems.append(f"schema_set={conn.schema_set}")
        if conn.database != D or conn.schema != SC:
            problems.append(f"names {conn.database}.{conn.schema}")
        cur_db, cur_sc = conn._duck_conn.execute("select current_database(), current_schema()").fetchone()
        if conn.schema_set and (cur_db.upper(), cur_sc.upper()) != (D, SC):
            problems.append(f"engine context {cur_db}.{cur_sc}")
        try:
            # a fresh session is outside a transaction: BEGIN must be possible (DuckDB refuses a nested one)
            conn._duck_conn.execute("begin")
            conn._duck_conn.execute("rollback")
        except Exception as e:  # noqa: BLE001
            problems.append(f"connect() left a transaction open: {type(e).__name__}: {str(e)[:80]}")
        fs.duck_conn.close()
        if a["with_path"]:
            import os

            files = sorted(f for f in os.listdir(td) if f.endswith(".db"))
            want = sorted({"DB1.db"} if (D and exp_db) else set()) if not a.get("elsewhere") else sorted(({"DB1.db"} if (D and exp_db) else set()) | {"DB2.db"})
            if files != want:
                problems.append(f"database files {files}, expected {want} (<db_path>/<UPPER NAME>.db)")
        return bool(problems), "; ".join(problems) or "real stack agrees with the options"


REGISTRY["C14.connect_ladder"].real_replay = _real_ladder

REGISTRY["C14.reattaching_a_database_file_keeps_its_content"].real_replay = _real_reattach
