"""C08 - bound parameters arrive as data, whatever they contain.

Engine E1.  The text of a bound string travels
    connector escape/quote  ->  '%' substitution  ->  sqlglot Snowflake lexer  ->  Literal node  ->  DuckDB generator  ->  DuckDB
fakesnow owns the first two hops (real FakeSnowflakeCursor._rewrite_with_params) and chooses the dialects of the others.
The real lexer routine (_scan_string) and the real DuckDB generator are run on the symbolic literal at unit level.
"""
from __future__ import annotations

import snowflake.connector
import snowflake.connector.converter
from snowflake.connector.cursor import DictCursor  # noqa: F401

import fakesnow.conn as fconn
from vf import fast
from vf.registry import REGISTRY, SHARD, done, ob, tier
from vf.sqlunit import duckdb_read_literal, render_string, scan_string_literal, validate_duckdb_literal_rule

fast.install()

META = {
    "level": "other",
    "explanation": "C08: parameter strings are symbolic over all of unicode within the length bound; integers are symbolic; "
    "placeholders, paramstyle at connect time vs. later, and executemany sets are symbolic choices.",
    "assumptions": [
        "K7: sqlglot's parser turns the STRING token into a Literal with the same text (lexing and rendering of the literal ARE checked)",
        "K2-literal: DuckDB reads '' as one quote inside a single-quoted literal and nothing else specially (validated on samples at start-up)",
        "SnowflakeConverter.to_snowflake dispatches on type(value).__name__, which a symbolic value cannot answer: the harness "
        "dispatches by isinstance to the same real per-type methods (_str/_int/_bool/_nonetype_to_snowflake) (listed stub)",
        "float, Decimal, bytes, date/time parameters and lists for IN are rendered by connector code that realises symbolic values: outside the claim",
    ],
}

L = tier(3, 4)


def validate_contracts():
    return validate_duckdb_literal_rule()


class LogDuck:
    """K1 stand-in that only records what reaches the engine."""

    def __init__(self) -> None:
        self.log = []

    def cursor(self):
        return self

    def execute(self, sql, params=None):
        self.log.append((sql, params))
        return self

    def fetchone(self):
        return ("exists",)

    def fetchall(self):
        return [(0,)]

    def fetch_arrow_table(self):
        from vf.stubs import StubTable

        return StubTable(["C"], [(1,)])

    def close(self):
        pass


def _cursor(style: str = "pyformat"):
    duck = LogDuck()
    saved = snowflake.connector.paramstyle
    snowflake.connector.paramstyle = style
    try:
        conn = fconn.FakeSnowflakeConnection(duck, database="DB1", schema="S1")
    finally:
        snowflake.connector.paramstyle = saved
    cur = conn.cursor()
    _typed_dispatch(cur)
    return duck, conn, cur


CONV = snowflake.connector.converter.SnowflakeConverter()


def _typed_dispatch(cur) -> None:
    """Listed stub: SnowflakeConverter.to_snowflake picks _<typename>_to_snowflake from type(value).__name__, which a symbolic
    value cannot answer; dispatch by isinstance to the SAME real per-type methods instead."""
    conv = cur._converter
    orig = conv.to_snowflake

    def to_snowflake(value):
        if value is None:
            return conv._nonetype_to_snowflake(value)
        if isinstance(value, bool):
            return conv._bool_to_snowflake(value)
        if isinstance(value, int):
            return conv._int_to_snowflake(value)
        if isinstance(value, str):
            return conv._str_to_snowflake(value)
        return orig(value)

    conv.to_snowflake = to_snowflake


@ob(
    "C08.string_param_round_trip",
    encodes=[
        "snowflake.connector.converter.SnowflakeConverter._str_to_snowflake/escape/quote (real, the converter fakesnow's cursor uses)",
        "sqlglot Snowflake Tokenizer._scan_string/_extract_string (real)",
    ],
    bounds="parameter p: any unicode string, |p| <= 3 (quick) / 4 (thorough)",
    timeout=(400, 2400),
    stubs=["SnowflakeConverter.to_snowflake dispatch by isinstance to the real per-type methods"],
    shards=(4, 5),
)
def string_round_trip(p: str) -> bool:
    """
    pre: len(p) <= L and (SHARD < 0 or len(p) == SHARD)
    post: _
    """
    # hop 1: the connector's own client-side binding of a str (what _rewrite_with_params applies per parameter; that the
    # real _rewrite_with_params substitutes exactly these texts is C08.placeholders_substituted_in_order - Python's '%'
    # operator realises symbolic strings, so the two steps are decided separately)
    conv = CONV
    text = conv.quote(conv.escape(conv._str_to_snowflake(p)))
    # hop 2: the Snowflake lexer sees exactly one string token that consumes the whole literal and carries p
    ok, tok_text, consumed, ntok = scan_string_literal(text)
    return done(ok and consumed == len(text) and tok_text == p)


@ob(
    "C08.duckdb_literal_rendering",
    encodes=["sqlglot DuckDB Generator on a Literal (real; the dialect fakesnow renders with)"],
    bounds="literal value t: any unicode string, |t| <= 3 (quick) / 4 (thorough); hop 3 of the round trip, universally quantified "
    "over the token text, so it composes with C08.string_param_round_trip",
    timeout=(300, 1800),
    stubs=["K2-literal duckdb_read_literal"],
    shards=(4, 5),
)
def duckdb_rendering(t: str) -> bool:
    """
    pre: len(t) <= L and (SHARD < 0 or len(t) == SHARD)
    post: _
    """
    return done(duckdb_read_literal(render_string(t, "duckdb")) == t)


def _real_string(a: dict):
    from vf.real import real_cursor

    p = a.get("p", a.get("t"))
    fs, conn, cur = real_cursor(False)
    try:
        got = cur.execute("select %s as v", (p,)).fetchall()
    except Exception as e:  # noqa: BLE001
        return True, f"real stack raised {type(e).__name__}: {e}"
    return got != [(p,)], f"real stack: select %s with {p!r} returned {got!r}"


REGISTRY["C08.string_param_round_trip"].real_replay = _real_string
REGISTRY["C08.duckdb_literal_rendering"].real_replay = _real_string


FRAGS = ["select ", ", ", " from t where a = ", " -- c", ""]
# (parameter string, the literal the connector's client-side binding writes for it)
PSTR_LITS = [
    ("it's", "'it\\'s'"),
    ("a\\b", "'a\\\\b'"),
    ("l1\nl2", "'l1\\nl2'"),
    ("%s $x ?", "'%s $x ?'"),
    ("';--", "'\\';--'"),
    ("", "''"),
    ("\u00e9\u4e2d", "'\u00e9\u4e2d'"),
]


@ob(
    "C08.placeholders_substituted_in_order",
    encodes=["fakesnow.cursor.FakeSnowflakeCursor._rewrite_with_params", "SnowflakeConverter.to_snowflake/escape/quote (real)"],
    bounds="1..3 placeholders (%s with a tuple or %(name)s with a dict, names in any order) between fixed fragments; parameter values: "
    "int derived from one symbolic n in -2..11 (n, 7-n, 100n; the connector renders ints with repr(), which enumerates values), "
    "bool, None, a string needing escapes, or (first placeholder only) a list / tuple for IN of two such strings, an int, None and a bool, chosen symbolically per position; "
    "sharded by (number of placeholders, kind of the first); a dict given as parameters is left untouched and binds to the same text again",
    timeout=(300, 900),
    shards=(18, 18),
    stubs=["SnowflakeConverter.to_snowflake dispatch by isinstance to the real per-type methods"],
)
def placeholders(k: int, as_dict: bool, t0: int, t1: int, t2: int, n: int) -> bool:
    """
    pre: 1 <= k <= 3 and 0 <= t0 <= 5 and 0 <= t1 <= 3 and 0 <= t2 <= 3 and -2 <= n <= 11
    pre: SHARD < 0 or (k == SHARD % 3 + 1 and t0 == SHARD // 3)
    post: _
    """
    duck, conn, cur = fast.native(_cursor)
    kinds = [t0, t1, t2][:k]
    nums = [n, 7 - n, 100 * n][:k]
    vals = []
    lits = []
    for kind, n in zip(kinds, nums):
        if kind == 0:
            vals.append(n)
            lits.append(str(n))
        elif kind == 1:
            b = n > 0
            vals.append(b)
            lits.append("TRUE" if b else "FALSE")
        elif kind == 2:
            vals.append(None)
            lits.append("NULL")
        elif kind == 3:
            sv, sl = PSTR_LITS[(n + 2) % len(PSTR_LITS)]
            vals.append(sv)
            lits.append(sl)
        else:
            # a list / tuple bound for IN (%s): every element is written as its own literal, exactly once escaped, comma separated
            sv, sl = PSTR_LITS[(n + 2) % len(PSTR_LITS)]
            sv2, sl2 = PSTR_LITS[(n + 3) % len(PSTR_LITS)]
            elems = [sv, n, None, sv2, n > 0]
            vals.append(elems if kind == 4 else tuple(elems))
            lits.append(",".join([sl, str(n), "NULL", sl2, "TRUE" if n > 0 else "FALSE"]))
    if as_dict:
        names = ["a", "b", "c"][:k]
        cmd = FRAGS[0] + "".join(f"%({nm})s" + FRAGS[i + 1] for i, nm in enumerate(names))
        params = {nm: v for nm, v in zip(reversed(names), reversed(vals))}
        mine = dict(params)
        text, rest = cur._rewrite_with_params(cmd, params)
        # the caller's dict is the caller's: binding it a second time (another execute, or executemany over the same object) gives the same text
        if len(params) != len(mine):
            return done(False)
        for nm in names:
            if params[nm] is not mine[nm]:
                return done(False)
        text2, _rest2 = cur._rewrite_with_params(cmd, params)
        if text2 != text:
            return done(False)
    else:
        cmd = FRAGS[0] + "".join("%s" + FRAGS[i + 1] for i in range(k))
        text, rest = cur._rewrite_with_params(cmd, tuple(vals))
    want = FRAGS[0] + "".join(lits[i] + FRAGS[i + 1] for i in range(k))
    return done(rest is None and text == want)


PSTRS = ["$V1", "x $v1 y", "'$V1'", "$$V1$$", "100% $V1", "a;drop table t1;--", "/* $V1 */"]


@ob(
    "C08.params_are_never_variable_references",
    encodes=["fakesnow.cursor.FakeSnowflakeCursor.execute (ordering: inline variables, then parameters)", "fakesnow.variables.Variables.inline_variables"],
    bounds="7 parameter strings containing $V1 in different lexical positions, with V1 defined or not; statement 'select %s' and "
    "'select $V1, %s' (format paramstyle); the engine must receive the parameter as one literal and the variable inlined exactly once",
    timeout=(200, 400),
    stubs=["K1 LogDuck (records the SQL reaching the engine)"],
)
def params_not_variables(i: int, defined: bool, with_ref: bool) -> bool:
    """
    pre: 0 <= i < len(PSTRS) and (defined or not with_ref)
    post: _
    """
    return done(_params_not_variables(fast.pick(i, len(PSTRS)), bool(fast.pick(defined, 2)), bool(fast.pick(with_ref, 2)), None))


def _params_not_variables(i: int, defined: bool, with_ref: bool, real) -> bool:
    from sqlglot import exp, parse_one

    p = PSTRS[i]
    if real is None:
        duck, conn, cur = _cursor()
    else:
        conn, cur = real
    if defined:
        cur.execute("set v1 = 42")
    cmd = "select $v1 as a, %s as b" if with_ref else "select %s as b"
    cur.execute(cmd, (p,))
    if real is not None:
        row = cur.fetchall()[0]
        return row[-1] == p and (not with_ref or row[0] == 42)
    sql = duck.log[-1][0]
    tree = parse_one(sql, read="duckdb")
    lits = [l for l in tree.find_all(exp.Literal)]
    strs = [l.this for l in lits if l.is_string]
    nums = [l.this for l in lits if not l.is_string]
    if strs != [p]:
        return False
    return nums == (["42"] if with_ref else []) and len(tree.expressions) == (2 if with_ref else 1)


def _real_pnv(a: dict):
    from vf.real import real_cursor

    fs, conn, cur = real_cursor(False)
    try:
        ok = _params_not_variables(a["i"], a["defined"], a["with_ref"], (conn, cur))
    except Exception as e:  # noqa: BLE001
        return True, f"real stack raised {type(e).__name__}: {e}"
    return (not ok), f"real stack: body returned {ok}"


REGISTRY["C08.params_are_never_variable_references"].real_replay = _real_pnv

STYLES = ["pyformat", "format", "qmark", "numeric"]


@ob(
    "C08.paramstyle_fixed_at_connect",
    encodes=["fakesnow.conn.FakeSnowflakeConnection.__init__ (paramstyle snapshot)", "fakesnow.cursor.FakeSnowflakeCursor.execute/_rewrite_with_params/_execute"],
    bounds="paramstyle at connect time and a (possibly different) module-level paramstyle at execute time, each in "
    "{pyformat, format, qmark, numeric}; one int parameter (symbolic, -12..12)",
    timeout=(200, 400),
    stubs=["K1 LogDuck"],
)
def paramstyle_snapshot(s0: int, s1: int, n: int) -> bool:
    """
    pre: 0 <= s0 <= 3 and 0 <= s1 <= 3 and -12 <= n <= 12
    post: _
    """
    at_connect, later = STYLES[s0], STYLES[s1]
    duck, conn, cur = fast.native(_cursor, at_connect)
    saved = snowflake.connector.paramstyle
    snowflake.connector.paramstyle = later
    try:
        if at_connect in ("pyformat", "format"):
            text, rest = cur._rewrite_with_params("select %s", (n,))
            return done(rest is None and text == "select " + str(n))
        n0 = len(duck.log)
        cur.execute("select ?", (n,))
        sql, params = duck.log[n0]
        # qmark/numeric: command and parameters reach the engine untouched (prepared-statement values)
        return done(params is not None and len(params) == 1 and params[0] == n and "?" in sql and not any(ch.isdigit() for ch in sql))
    finally:
        snowflake.connector.paramstyle = saved


@ob(
    "C08.executemany_once_per_set_in_order",
    encodes=["fakesnow.cursor.FakeSnowflakeCursor.executemany/execute/_rewrite_with_params"],
    bounds="0..3 parameter sets of two values: an int derived from one symbolic n in -2..11 (n, 7-n, 100n) and a pool string "
    "(plain, with a quote, looking like a placeholder); the engine must see exactly one "
    "INSERT per set, in order, each carrying its own values",
    timeout=(300, 600),
    stubs=["K1 LogDuck"],
)
def executemany_sets(k: int, n: int) -> bool:
    """
    pre: 0 <= k <= 3 and -2 <= n <= 11
    post: _
    """
    from sqlglot import exp, parse_one

    duck, conn, cur = fast.native(_cursor)
    # realise the number of this path: the statement text goes through the real parser
    n = fast.pick(n + 2, 14) - 2
    nums = [n, 7 - n, 100 * n][:k]
    strs = ["a", "it's", "%s"][:k]
    base = len(duck.log)
    cur.executemany("insert into t1 (a, b) values (%s, %s)", [(x, s) for x, s in zip(nums, strs)])
    inserts = [sql for sql, params in duck.log[base:] if sql.lstrip().upper().startswith("INSERT")]
    if len(inserts) != k:
        return done(False)
    for sql, x, s in zip(inserts, nums, strs):
        tree = parse_one(sql, read="duckdb")
        vals = tree.find(exp.Values)
        tup = vals.expressions[0].expressions
        a, b = tup
        av = -int(a.this.this) if isinstance(a, exp.Neg) else int(a.this)
        if av != x or not b.is_string or b.this != s:
            return done(False)
    return done(True)


# ------------------------------------------------------------------ equal-comparing values of different Python types keep their own literals
import datetime as _dt  # noqa: E402
from decimal import Decimal as _D  # noqa: E402

TYPED = [True, 1, False, 0, None, "1", "TRUE", "", 1.0, 0.0, -0.0, _D("1"), _D("1.00"), _D("0"), 1.5, _D("1.5"), _dt.date(2020, 1, 2), "2020-01-02", b"1", 10]


def _own_literal(v) -> str:
    """The connector's client-side literal for ONE value, computed in isolation with a fresh converter (the oracle)."""
    c = snowflake.connector.converter.SnowflakeConverter()
    return c.quote(c.escape(c.to_snowflake(v)))


def _typed(i0: int, i1: int, i2: int, as_dict: bool, reuse: bool) -> bool:
    import snowflake.connector as sc

    import fakesnow.conn as fc

    saved = sc.paramstyle
    sc.paramstyle = "pyformat"
    try:
        conn = fc.FakeSnowflakeConnection(LogDuck(), database="DB1", schema="S1")
    finally:
        sc.paramstyle = saved
    cur = conn.cursor()  # real converter, real type dispatch: every value here is concrete
    idx = [i0, i1, i2]
    if reuse:
        # an earlier statement on the same cursor bound the first value already
        cur._rewrite_with_params("select %s", (TYPED[i0],))
    if as_dict:
        text, rest = cur._rewrite_with_params("select %(a)s, %(b)s, %(c)s", {"a": TYPED[i0], "b": TYPED[i1], "c": TYPED[i2]})
    else:
        text, rest = cur._rewrite_with_params("select %s, %s, %s", tuple(TYPED[i] for i in idx))
    return rest is None and text == "select " + ", ".join(_own_literal(TYPED[i]) for i in idx)


@ob(
    "C08.values_keep_the_literal_of_their_own_type",
    encodes=["fakesnow.cursor.FakeSnowflakeCursor._rewrite_with_params", "SnowflakeConverter.to_snowflake/escape/quote (real, real dispatch: concrete values)"],
    bounds="three parameters drawn by symbolic index from 20 values that compare or hash equal across types (True / 1 / 1.0 / Decimal('1') / "
    "Decimal('1.00') / '1', False / 0 / 0.0 / -0.0 / Decimal('0'), None, '', 1.5 / Decimal('1.5'), a date and its text, bytes), tuple or dict binding, with or without an earlier statement on the same cursor that bound the first value: each is written as the literal "
    "of its own type",
    timeout=(300, 600),
    shards=(20, 20),
)
def typed_values(i0: int, i1: int, i2: int, as_dict: bool, reuse: bool) -> bool:
    """
    pre: 0 <= i0 < 20 and 0 <= i1 < 20 and 0 <= i2 < 20 and (SHARD < 0 or i0 == SHARD)
    post: _
    """
    P = fast.pick
    return done(fast.native(_typed, P(i0, 20), P(i1, 20), P(i2, 20), bool(P(as_dict, 2)), bool(P(reuse, 2))))
