"""Imported for the first time by fakesnow.patch itself (not-yet-imported extra target)."""
from snowflake.connector import connect  # noqa: F401
