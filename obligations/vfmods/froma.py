"""A module that binds the connector's functions by from-import (an 'extra target' for fakesnow.patch)."""
from snowflake.connector import connect  # noqa: F401
from snowflake.connector.pandas_tools import write_pandas  # noqa: F401


def helper():
    return "not a snowflake function"
