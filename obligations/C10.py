"""C10 - rewritten Snowflake functions return what Snowflake documents.

Reduction: result = DuckDB function semantics (K1/K8, trusted) o argument plumbing done by the transform (decided).
Each real transform is run on a concrete AST skeleton whose argument leaves are symbolic (CrossHair), the seed formula
of RANDOM is decided as a floating-point SMT lemma (E2), EQUAL_NULL's macro body as a 3-valued-logic SMT lemma (E3).
"""
from __future__ import annotations

import sqlglot
import z3
from sqlglot import exp

import fakesnow.macros as fmacros
from fakesnow import transforms
from vf import fast
from vf import symsql as S
from vf.registry import REGISTRY, SHARD, SmtResult, done, ob, tier
from vf.smt import check

fast.install()

META = {
    "level": "translation_validation",
    "explanation": "C10: each rewrite is validated as a translation: symbolic argument leaves (positions, occurrences, groups, precisions, "
    "scales, column counts, seeds) flow through the real transform and the real DuckDB generator, and the oracle relates Snowflake's "
    "documented arguments to the arguments DuckDB receives; date parts, digest sizes, function-name spellings and expression contexts "
    "are symbolic choices over pools.",
    "assumptions": [
        "K1/K8: the value semantics of DuckDB's regexp_extract_all, casts, date arithmetic, sha256, setseed/random, TABLESAMPLE are DuckDB's; "
        "only the arguments and result types fakesnow chooses are decided here",
        "K7: sqlglot's Snowflake parser maps date-part aliases to canonical names and parses the skeletons used",
        "known findings carved out: REGEXP_SUBSTR 'e' parameter; RANDOM seeds outside 0..3221225470 and negative seeds; DATEADD(QUARTER, ..) on a DATE",
    ],
}


def validate_contracts():
    br = exp.Bracket(this=exp.column("s"), expressions=[exp.Literal.number(6)])
    sl = exp.Bracket(this=exp.column("s"), expressions=[exp.Slice(this=exp.Literal.number(3))])
    text = br.sql(dialect="duckdb") + " | " + sl.sql(dialect="duckdb")
    ok = text == "s[7] | s[3 : ]"
    return [("K7 sqlglot's DuckDB generator adds 1 to bracket indices and renders the slice start unchanged", ok, text)]


def _tx(sql: str, *ts):
    e = sqlglot.parse_one(sql, read="snowflake")
    for t in ts:
        e = e.transform(t)
    return e


# ------------------------------------------------------------------ REGEXP_SUBSTR
@ob(
    "C10.regexp_substr_arguments",
    encodes=["fakesnow.transforms.regex_substr", "sqlglot DuckDB generator (Bracket index offset, Slice)"],
    bounds="position 1..999, occurrence 1..999, group 0..9 symbolic integers (written into the literal leaves of the parsed call); parameters from "
    "{absent, 'c', 'i', 'im', 's'} (no 'e': known finding)",
    timeout=(300, 900),
    carve="C10-regexp-substr-e-parameter",
    shards=(5, 5),
)
def regexp_substr(pos: int, occ: int, grp: int, pi: int, nargs: int) -> bool:
    """
    pre: 1 <= pos <= 999 and 1 <= occ <= 999 and 0 <= grp <= 9 and 0 <= pi <= 4 and 2 <= nargs <= 6 and (SHARD < 0 or nargs == SHARD + 2)
    post: _
    """
    params = [None, "c", "i", "im", "s"][fast.pick(pi, 5)]
    n = fast.pick(nargs, 7)
    args = ["subj", "'a(b)(c)'", "1", "1", "'c'", "0"][:n]
    if n >= 5:
        args[4] = "'" + (params or "c") + "'"
    e = sqlglot.parse_one("select regexp_substr(" + ", ".join(args) + ") as r from t", read="snowflake")
    call = e.find(exp.RegexpExtract)
    if n >= 3:
        call.args["position"].args["this"] = str(pos)
    if n >= 4:
        call.args["occurrence"].args["this"] = str(occ)
    if n >= 6:
        call.args["group"].args["this"] = str(grp)
    out = e.transform(transforms.regex_substr)
    br = out.find(exp.Bracket)
    if br is None or not isinstance(br.this, exp.Anonymous) or str(br.this.this).lower() != "regexp_extract_all":
        return done(False)
    fargs = br.this.expressions
    if len(fargs) != 4:
        return done(False)
    want_pos = pos if n >= 3 else 1
    want_occ = occ if n >= 4 else 1
    want_grp = grp if n >= 6 else 0
    want_par = (params or "c") if n >= 5 else ""
    # subject sliced from position; pattern unchanged; group; options
    sl = fargs[0]
    if not isinstance(sl, exp.Bracket) or not isinstance(sl.expressions[0], exp.Slice) or int(sl.expressions[0].this.this) != want_pos:
        return done(False)
    if fargs[1].this != "a(b)(c)" or int(fargs[2].this) != want_grp or (fargs[3].this or "") != want_par:
        return done(False)
    # occurrence: the DuckDB generator adds 1 to bracket indices, so the tree must carry occurrence - 1 ...
    if int(br.expressions[0].this) != want_occ - 1:
        return done(False)
    # ... (that offset of the generator is validated concretely at start-up: validate_contracts)
    return done(True)


def _real_regexp(a: dict):
    from vf.real import real_cursor

    fs, conn, cur = real_cursor(False)
    subj = "xab1c ab2c ab3c AB4c ab5c"
    pos, occ = min(a["pos"], 3), min(a["occ"], 4)
    sql = f"select regexp_substr('{subj}', 'ab([0-9])c', {pos}, {occ})"
    got = cur.execute(sql).fetchall()[0][0]
    import re

    ms = re.findall(r"ab[0-9]c", subj[pos - 1 :])
    want = ms[occ - 1] if occ <= len(ms) else None
    return got != want, f"real stack: {sql} -> {got!r}, expected {want!r}"


REGISTRY["C10.regexp_substr_arguments"].real_replay = _real_regexp

# ------------------------------------------------------------------ TO_DECIMAL family
FNS = ["to_decimal", "to_number", "to_numeric", "TO_DECIMAL", "try_to_decimal", "try_to_number", "TRY_TO_NUMERIC"]


@ob(
    "C10.to_decimal_precision_scale",
    encodes=["fakesnow.transforms.to_decimal", "fakesnow.transforms.try_to_decimal", "fakesnow.transforms._to_decimal/_get_to_number_args"],
    bounds="7 spellings of TO_DECIMAL/TO_NUMBER/TO_NUMERIC and their TRY_ forms x (no precision | precision | precision and scale) with symbolic "
    "1 <= p <= 38, 0 <= s <= p x with/without a format string (must be rejected)",
    timeout=(300, 900),
)
def to_decimal(fi: int, nargs: int, p: int, s: int, with_format: bool) -> bool:
    """
    pre: 0 <= fi < 7 and 0 <= nargs <= 2 and 1 <= p <= 38 and 0 <= s <= p
    post: _
    """
    fn = FNS[fast.pick(fi, 7)]
    n = fast.pick(nargs, 3)
    args = ["'12.5'"] + (["'999.9'"] if with_format else []) + ["10", "2"][:n]
    e = sqlglot.parse_one(f"select {fn}(" + ", ".join(args) + ") as r", read="snowflake")
    # write the symbolic numbers into the numeric literal leaves, in order
    nums = [lit for lit in e.find_all(exp.Literal) if not lit.is_string]
    vals = [p, s][:n]
    if len(nums) != len(vals):
        return done(False)
    for lit, v in zip(nums, vals):
        lit.args["this"] = str(v)
    try:
        out = e.transform(transforms.to_decimal).transform(transforms.try_to_decimal)
    except NotImplementedError:
        return done(bool(with_format))
    if with_format:
        return done(False)  # a format argument is not supported: must be rejected, not ignored
    cast = out.find(exp.TryCast) if fn.lower().startswith("try_") else out.find(exp.Cast)
    if cast is None or (fn.lower().startswith("try_")) != isinstance(cast, exp.TryCast):
        return done(False)
    to = cast.args["to"]
    if to.this != exp.DataType.Type.DECIMAL or len(to.expressions) != 2:
        return done(False)
    got_p, got_s = int(to.expressions[0].this if isinstance(to.expressions[0], exp.Literal) else to.expressions[0].this.this), int(to.expressions[1].this if isinstance(to.expressions[1], exp.Literal) else to.expressions[1].this.this)
    want_p = p if n >= 1 else 38
    want_s = s if n >= 2 else 0
    return done(got_p == want_p and got_s == want_s and cast.this.this == "12.5")


# ------------------------------------------------------------------ VALUES columnN
@ob(
    "C10.values_column_names",
    encodes=["fakesnow.transforms.values_columns"],
    bounds="VALUES with n = 1..6 columns (symbolic), 1..2 rows, with and without an explicit alias",
    timeout=(120, 300),
)
def values_columns(n: int, rows: int, aliased: bool) -> bool:
    """
    pre: 1 <= n <= 6 and 1 <= rows <= 2
    post: _
    """
    n, rows = fast.pick(n, 7), fast.pick(rows, 3)
    tup = "(" + ", ".join(str(i) for i in range(n)) + ")"
    sql = "select * from (values " + ", ".join([tup] * rows) + ")" + (" as v" if aliased else "")
    out = _tx(sql, transforms.values_columns)
    vals = out.find(exp.Values)
    alias = vals.args.get("alias")
    if aliased:
        return done(alias is not None and alias.name == "v" and not alias.args.get("columns"))
    cols = alias.args.get("columns") if alias is not None else None
    if not cols or len(cols) != n:
        return done(False)
    return done(all(c.this == f"COLUMN{i + 1}" and c.quoted for i, c in enumerate(cols)))


# ------------------------------------------------------------------ DATEADD / DATEDIFF
UNITS = {
    "DATE": ["day", "d", "dd", "days", "dayofmonth", "week", "w", "wk", "weekofyear", "month", "mm", "mon", "mons", "months", "year", "y", "yy", "yyy", "yyyy", "yr", "years", "yrs"],
    "TIME": ["hour", "h", "hh", "hr", "hours", "hrs", "minute", "m", "mi", "min", "minutes", "mins", "second", "s", "sec", "seconds", "secs"],
}
ALL_UNITS = UNITS["DATE"] + UNITS["TIME"]


def _dateadd(ui: int, operand: int, amount: int) -> bool:
    unit = ALL_UNITS[ui]
    op = ["'2023-01-31'::date", "cast(d as date)", "'2023-01-31 10:00:00'", "ts_col", "to_date('2023-01-31')"][operand]
    e = sqlglot.parse_one(f"select dateadd({unit}, {amount}, {op}) as r from t", read="snowflake")
    out = e.transform(transforms.to_date).transform(transforms.dateadd_date_cast).transform(transforms.dateadd_string_literal_timestamp_cast)
    top = out.expressions[0].unalias()
    is_date_operand = operand in (0, 1, 4)
    date_unit = unit in UNITS["DATE"]
    if is_date_operand and date_unit:
        # Snowflake: DATE + day/week/month/year part -> DATE
        if not (isinstance(top, exp.Cast) and top.to.this == exp.DataType.Type.DATE and isinstance(top.this, exp.DateAdd)):
            return False
    else:
        if not isinstance(top, exp.DateAdd):
            return False
    da = top.this if isinstance(top, exp.Cast) and isinstance(top.this, exp.DateAdd) else top
    if operand == 2:
        # string literals are timestamps, whatever the unit
        inner = da.this
        if not (isinstance(inner, exp.Cast) and inner.to.this == exp.DataType.Type.TIMESTAMP and inner.this.this == "2023-01-31 10:00:00"):
            return False
    text = out.sql(dialect="duckdb")
    return str(amount) in text


@ob(
    "C10.dateadd_result_type",
    encodes=["fakesnow.transforms.dateadd_date_cast", "fakesnow.transforms.dateadd_string_literal_timestamp_cast", "fakesnow.transforms.to_date"],
    bounds="39 date/time part spellings (Snowflake's aliases for day, week, month, year, hour, minute, second; QUARTER is a known finding) x 5 "
    "operand kinds (::date cast, cast(col as date), string literal, timestamp column, to_date()) x amount in {1, 7, 99}",
    timeout=(300, 600),
    carve="C10-dateadd-quarter",
)
def dateadd(ui: int, operand: int, amount: int) -> bool:
    """
    pre: 0 <= ui < len(ALL_UNITS) and 0 <= operand <= 4 and amount in (1, 7, 99)
    post: _
    """
    return done(fast.native(_dateadd, fast.pick(ui, len(ALL_UNITS)), fast.pick(operand, 5), [1, 7, 99][fast.pick((amount > 1) + (amount > 7), 3)]))


def _real_dateadd(a: dict):
    import datetime

    from vf.real import real_cursor

    unit = ALL_UNITS[a["ui"]]
    if a["operand"] not in (0, 2):
        return None, "operand kind needs a table; only literal operands are replayed"
    op = ["'2023-01-31'::date", None, "'2023-01-31 10:00:00'"][a["operand"]]
    fs, conn, cur = real_cursor(False)
    got = cur.execute(f"select dateadd({unit}, {a['amount']}, {op})").fetchall()[0][0]
    want_date = a["operand"] == 0 and unit in UNITS["DATE"]
    is_date = isinstance(got, datetime.date) and not isinstance(got, datetime.datetime)
    return is_date != want_date, f"real stack: dateadd({unit}, {a['amount']}, {op}) -> {got!r} ({type(got).__name__})"


REGISTRY["C10.dateadd_result_type"].real_replay = _real_dateadd


def _datediff(ui: int, k1: int, k2: int) -> bool:
    unit = ALL_UNITS[ui]
    ops = ["'2023-01-31'", "'2023-02-28 10:00:00'", "ts_col", "d::date"]
    e = sqlglot.parse_one(f"select datediff({unit}, {ops[k1]}, {ops[k2]}) as r from t", read="snowflake")
    out = e.transform(transforms.datediff_string_literal_timestamp_cast)
    dd = out.find(exp.DateDiff)
    if dd is None:
        return False
    for k, side in ((k1, dd.expression), (k2, dd.this)):
        # sqlglot stores DATEDIFF(unit, a, b) as this=b, expression=a
        lit = k in (0, 1)
        if lit and not (isinstance(side, exp.Cast) and side.to.this == exp.DataType.Type.TIMESTAMP and isinstance(side.this, exp.Literal)):
            return False
        if not lit and isinstance(side, exp.Cast) and side.to.this == exp.DataType.Type.TIMESTAMP and k == 2:
            return False
    return True


@ob(
    "C10.datediff_string_literals_are_timestamps",
    encodes=["fakesnow.transforms.datediff_string_literal_timestamp_cast"],
    bounds="39 date part spellings x 4 x 4 operand kinds (date string, timestamp string, column, ::date cast) on either side",
    timeout=(300, 600),
)
def datediff(ui: int, k1: int, k2: int) -> bool:
    """
    pre: 0 <= ui < len(ALL_UNITS) and 0 <= k1 <= 3 and 0 <= k2 <= 3
    post: _
    """
    return done(fast.native(_datediff, fast.pick(ui, len(ALL_UNITS)), fast.pick(k1, 4), fast.pick(k2, 4)))


# ------------------------------------------------------------------ SHA2
def _sha2(fi: int, li: int) -> bool:
    fn = ["sha2", "SHA2", "sha2_hex", "Sha2_Hex", "sha2_binary", "SHA2_BINARY"][fi]
    length = [None, 224, 256, 384, 512][li]
    sql = f"select {fn}(b" + (f", {length}" if length else "") + ") as r from t"
    out = sqlglot.parse_one(sql, read="snowflake").transform(transforms.sha256)
    text = out.sql(dialect="duckdb").upper()
    if length in (None, 256):
        if "BINARY" in fn.upper():
            return "UNHEX(SHA256(B))" in text
        return "SHA256(B)" in text and "UNHEX" not in text
    # other digest sizes must not be answered with the 256-bit digest
    return "SHA256(" not in text


@ob(
    "C10.sha2_digest_size",
    encodes=["fakesnow.transforms.sha256"],
    bounds="6 spellings of SHA2 / SHA2_HEX / SHA2_BINARY x digest size in {absent, 224, 256, 384, 512}",
    timeout=(120, 300),
)
def sha2(fi: int, li: int) -> bool:
    """
    pre: 0 <= fi <= 5 and 0 <= li <= 4
    post: _
    """
    return done(fast.native(_sha2, fast.pick(fi, 6), fast.pick(li, 5)))


# ------------------------------------------------------------------ SAMPLE
def _sample(mi: int, pct: int, seed: int, has_seed: bool) -> bool:
    method = ["", "bernoulli", "system", "row", "block"][mi]
    sql = f"select * from t sample {method} ({pct})" + (f" seed ({seed})" if has_seed else "")
    out = sqlglot.parse_one(sql, read="snowflake").transform(transforms.sample)
    ts = out.find(exp.TableSample)
    if ts is None:
        return False
    m = ts.args.get("method")
    mname = (m.name if m is not None else "").upper()
    want = {"": "BERNOULLI", "bernoulli": "BERNOULLI", "row": "BERNOULLI", "system": "SYSTEM", "block": "SYSTEM"}[method]
    if method in ("row", "block"):
        # Snowflake spellings ROW / BLOCK mean BERNOULLI / SYSTEM; accept the original word if DuckDB is told the same family
        if mname not in (want, method.upper()):
            return False
    elif mname != want:
        return False
    text = out.sql(dialect="duckdb")
    if has_seed and f"REPEATABLE ({seed})" not in text:
        return False
    return f"({pct} PERCENT)" in text


@ob(
    "C10.sample_method_and_seed",
    encodes=["fakesnow.transforms.sample"],
    bounds="sampling method in {absent, BERNOULLI, SYSTEM, ROW, BLOCK} x percentage 1..100 x seed 0..9999 present/absent",
    timeout=(300, 600),
)
def sample(mi: int, pct: int, seed: int, has_seed: bool) -> bool:
    """
    pre: 0 <= mi <= 4 and pct in (1, 10, 50, 100) and seed in (0, 7, 9999)
    post: _
    """
    return done(fast.native(_sample, fast.pick(mi, 5), [1, 10, 50, 100][fast.pick((pct > 1) + (pct > 10) + (pct > 50), 4)], [0, 7, 9999][fast.pick((seed > 0) + (seed > 7), 3)], bool(fast.pick(has_seed, 2))))


# ------------------------------------------------------------------ contexts
CONSTRUCTS = [
    ("to_decimal(x, 10, 2)", "CAST(X AS DECIMAL(10, 2))"),
    ("regexp_substr(s, 'a')", "REGEXP_EXTRACT_ALL(S[1 : ], 'a', 0, '')[1]"),
    ("sha2(s)", "SHA256(S)"),
    ("to_date(s)", "CAST(S AS DATE)"),
    ("try_to_number(s, 5)", "TRY_CAST(S AS DECIMAL(5, 0))"),
    ("dateadd(day, 1, d::date)", "CAST(CAST(D AS DATE) + INTERVAL 1 DAY AS DATE)"),
    ("x::float", "CAST(X AS DOUBLE)"),
    ("x::number", "CAST(X AS DECIMAL(38, 0))"),
    ("x::int", "CAST(X AS BIGINT)"),
    ("x::timestamp_ntz", "CAST(X AS TIMESTAMP)"),
    ("split(s, ',')", "TO_JSON(STR_SPLIT(S, ','))"),
    ("regexp_replace(s, 'a')", "REGEXP_REPLACE(S, 'a', '', 'g')"),
    ("trim(x)", "TRIM(CAST(X AS TEXT))"),
]
CONTEXTS = [
    "select {c} as r from t",
    "select x from t where {c} is not null",
    "select coalesce({c}, null) as r from t",
    "select upper(cast({c} as varchar)) as r from t",
    "insert into t2 select {c} from t",
    "create view v as select {c} as r from t",
    "with q as (select {c} as r from t) select r from q",
    "select case when x > 1 then {c} end as r from t",
    "select r from (select {c} as r from t) sub",
    "update t set y = {c} where x = 1",
    "select x from t order by {c}",
    "select max({c}) as r from t group by x",
]


def _context(ci: int, xi: int) -> bool:
    import fakesnow.conn as fconn

    construct, want = CONSTRUCTS[ci]
    sql = CONTEXTS[xi].format(c=construct)

    class Duck:
        def __init__(self):
            self.log = []

        def cursor(self):
            return self

        def execute(self, q, params=None):
            self.log.append(q)
            return self

        def fetchone(self):
            return ("x",)

        def fetchall(self):
            return [(1,)]

        def fetch_arrow_table(self):
            from vf.stubs import StubTable

            return StubTable(["C"], [(1,)])

    duck = Duck()
    conn = fconn.FakeSnowflakeConnection(duck, database="DB1", schema="S1")
    base = len(duck.log)
    conn.cursor().execute(sql)
    first = duck.log[base]
    return want in first


@ob(
    "C10.rewrites_apply_in_every_context",
    encodes=["fakesnow.cursor.FakeSnowflakeCursor.execute/_transform (all 57 transforms, in order)"],
    bounds="13 rewritten constructs x 12 expression contexts (select list, WHERE, nested in other calls, INSERT..SELECT, CREATE VIEW, CTE, CASE, "
    "derived table, UPDATE SET, ORDER BY, aggregate argument): the statement reaching DuckDB contains the rewritten form",
    timeout=(300, 600),
    shards=(13, 13),
)
def contexts(ci: int, xi: int) -> bool:
    """
    pre: 0 <= ci < len(CONSTRUCTS) and 0 <= xi < len(CONTEXTS) and (SHARD < 0 or ci == SHARD)
    post: _
    """
    return done(fast.native(_context, fast.pick(ci, len(CONSTRUCTS)), fast.pick(xi, len(CONTEXTS))))


# ------------------------------------------------------------------ RANDOM(seed): floating point lemmas (E2)
SEED_MAX = 3221225470  # largest seed whose setseed argument is <= 1 (known finding beyond)


def _seed_term(seed_bv):
    """The setseed() argument the real transform emits, as a binary64 term over a 64-bit seed."""
    ph = "777000777"
    e = sqlglot.parse_one(f"select random({ph})", read="snowflake").transform(transforms.random)
    text = e.args.get("seed")
    if not text:
        raise ValueError("no seed emitted")
    tree = sqlglot.parse_one(text, read="duckdb")
    f64 = z3.Float64()
    rne = z3.RNE()

    def tr(n):
        if isinstance(n, exp.Paren):
            return tr(n.this)
        if isinstance(n, exp.Literal):
            if n.this == ph:
                return ("int", seed_bv)
            if "." in n.this:
                return ("fp", z3.FPVal(float(n.this), f64))
            return ("int", z3.BitVecVal(int(n.this), 64))
        if isinstance(n, exp.Div):
            a, b = tr(n.this), tr(n.expression)
            # DuckDB: integer / integer is floating-point division
            fa = z3.fpSignedToFP(rne, a[1], f64) if a[0] == "int" else a[1]
            fb = z3.fpSignedToFP(rne, b[1], f64) if b[0] == "int" else b[1]
            return ("fp", z3.fpDiv(rne, fa, fb))
        if isinstance(n, (exp.Sub, exp.Add, exp.Mul)):
            a, b = tr(n.this), tr(n.expression)
            fa = z3.fpSignedToFP(rne, a[1], f64) if a[0] == "int" else a[1]
            fb = z3.fpSignedToFP(rne, b[1], f64) if b[0] == "int" else b[1]
            op = {exp.Sub: z3.fpSub, exp.Add: z3.fpAdd, exp.Mul: z3.fpMul}[type(n)]
            return ("fp", op(rne, fa, fb))
        raise ValueError(f"seed formula node {type(n).__name__}")

    kind, term = tr(tree)
    if kind != "fp":
        raise ValueError("seed formula is not floating point")
    return term, text


def _real_seed(a: dict):
    from vf.real import real_cursor

    s = a["seed"]
    fs, conn, cur = real_cursor(False)
    try:
        v1 = cur.execute(f"select random({s})").fetchall()
        v1b = cur.execute(f"select random({s})").fetchall()
        v2 = cur.execute(f"select random({s + 1})").fetchall()
    except Exception as e:  # noqa: BLE001
        return True, f"real stack: random({s}) raised {type(e).__name__}: {str(e)[:100]}"
    bad = v1 != v1b or v1 == v2
    return bad, f"real stack: random({s}) -> {v1} / {v1b}; random({s + 1}) -> {v2}"


@ob(
    "C10.random_seed_formula",
    kind="smt",
    encodes=["fakesnow.transforms.random (the setseed argument text it emits, translated term by term)"],
    bounds="seed any integer in 0..3221225470 (64-bit vector, binary64 arithmetic, RNE): the argument is within DuckDB's [-1, 1] and strictly "
    "increasing in the seed (so distinct seeds give distinct engine seeds); larger and negative seeds are a listed finding",
    timeout=(400, 1200),
    real_replay=_real_seed,
    carve="C10-random-seed-range",
)
def random_seed() -> SmtResult:
    s = z3.BitVec("seed", 64)
    try:
        t1, text = _seed_term(s)
        t2, _ = _seed_term(s + 1)
    except ValueError as e:
        return SmtResult("inconclusive", detail=str(e))
    f64 = z3.Float64()
    dom = z3.And(s >= 0, s <= SEED_MAX - 1)
    in_range = z3.And(z3.fpGEQ(t1, z3.FPVal(-1.0, f64)), z3.fpLEQ(t1, z3.FPVal(1.0, f64)), z3.fpLEQ(t2, z3.FPVal(1.0, f64)))
    good = z3.And(in_range, z3.fpLT(t1, t2))
    verdict, model, dt, notes = check([dom, z3.Not(good)], timeout_s=tier(300, 900))
    sample = {"formula": text, "query": "exists seed in [0, 3221225469]: arg(seed) outside [-1,1] or arg(seed) >= arg(seed+1)", "notes": notes}
    if verdict == "unsat":
        return SmtResult("holds", queries=1, solver_s=dt, detail="unsat", samples=[sample], programs=1)
    if verdict == "sat":
        sv = model.eval(s, model_completion=True).as_long()
        return SmtResult("counterexample", queries=1, solver_s=dt, detail=f"seed {sv}", model={"seed": sv}, samples=[sample], programs=1)
    return SmtResult("inconclusive", queries=1, solver_s=dt, detail=f"solver {verdict} {notes}", samples=[sample])


@ob(
    "C10.random_result_fits_bigint",
    kind="smt",
    encodes=["fakesnow.transforms.random (the BIGINT scaling expression it builds)"],
    bounds="DuckDB random() any binary64 in [0, 1): the expression (random() - 0.5) * 9223372036854775807 is finite and within the BIGINT range, "
    "so the CAST cannot fail",
    timeout=(200, 600),
)
def random_fits() -> SmtResult:
    e = sqlglot.parse_one("select random()", read="snowflake").transform(transforms.random)
    cast = e.find(exp.Cast)
    if cast is None or cast.to.this != exp.DataType.Type.BIGINT:
        return SmtResult("counterexample", detail="RANDOM() is not cast to BIGINT", model={"seed": 0})
    f64 = z3.Float64()
    rne = z3.RNE()
    r = z3.FP("r", f64)

    def tr(n):
        if isinstance(n, exp.Paren):
            return tr(n.this)
        if isinstance(n, exp.Rand):
            return r
        if isinstance(n, exp.Literal):
            return z3.FPVal(float(n.this), f64)
        if isinstance(n, (exp.Sub, exp.Add, exp.Mul)):
            op = {exp.Sub: z3.fpSub, exp.Add: z3.fpAdd, exp.Mul: z3.fpMul}[type(n)]
            return op(rne, tr(n.this), tr(n.expression))
        raise ValueError(type(n).__name__)

    try:
        term = tr(cast.this)
    except ValueError as ex:
        return SmtResult("inconclusive", detail=f"node {ex}")
    dom = z3.And(z3.fpGEQ(r, z3.FPVal(0.0, f64)), z3.fpLT(r, z3.FPVal(1.0, f64)))
    lim = z3.FPVal(9223372036854775807.0, f64)  # 2**63 as binary64
    good = z3.And(z3.Not(z3.fpIsNaN(term)), z3.fpLT(term, lim), z3.fpGEQ(term, z3.fpNeg(lim)))
    verdict, model, dt, notes = check([dom, z3.Not(good)], timeout_s=120)
    if verdict == "unsat":
        return SmtResult("holds", queries=1, solver_s=dt, detail="unsat", samples=[{"expr": cast.this.sql(), "notes": notes}], programs=1)
    if verdict == "sat":
        return SmtResult("counterexample", queries=1, solver_s=dt, detail=str(model), model={"seed": 0}, programs=1)
    return SmtResult("inconclusive", queries=1, solver_s=dt, detail=str(notes))


# ------------------------------------------------------------------ EQUAL_NULL (E3 scalar)
@ob(
    "C10.equal_null_truth_table",
    kind="smt",
    encodes=["fakesnow.macros.EQUAL_NULL (macro body text)"],
    bounds="a, b nullable integers (symbolic NULL flags and values): the macro body evaluated in three-valued logic equals Snowflake's EQUAL_NULL "
    "(TRUE when both NULL, FALSE when exactly one NULL, a = b otherwise) and is never NULL",
    timeout=(60, 120),
)
def equal_null() -> SmtResult:
    text = fmacros.EQUAL_NULL.substitute(catalog="DB1").strip().rstrip(";")
    body = text[text.upper().index(" AS ") + 4 :]
    head = text[: text.upper().index(" AS ")]
    params = head[head.index("(") + 1 : head.index(")")].replace(" ", "").split(",")
    if len(params) != 2:
        return SmtResult("counterexample", detail=f"macro parameters {params}", model={"a": None, "b": None})
    tree = sqlglot.parse_one(body, read="duckdb")
    a = S.V(z3.Bool("a_null"), z3.Int("a"))
    b = S.V(z3.Bool("b_null"), z3.Int("b"))
    row = S.Row(S.TRUE, {params[0].upper(): a, params[1].upper(): b})
    try:
        got = S.ev(tree, S.Scope(S.Env({}), {"_": row}))
    except S.Unsupported as e:
        return SmtResult("inconclusive", detail=str(e))
    want = z3.Or(z3.And(a.null, b.null), z3.And(z3.Not(a.null), z3.Not(b.null), a.val == b.val))
    good = z3.And(z3.Not(got.null), got.val == want)
    verdict, model, dt, notes = check([z3.Not(good)], timeout_s=60)
    if verdict == "unsat":
        return SmtResult("holds", queries=1, solver_s=dt, detail="unsat", samples=[{"macro": body}], programs=1)
    if verdict == "sat":
        return SmtResult("counterexample", queries=1, solver_s=dt, detail=str(model), model={"a": str(model.eval(a.val)), "a_null": str(model.eval(a.null)), "b": str(model.eval(b.val)), "b_null": str(model.eval(b.null))}, programs=1)
    return SmtResult("inconclusive", queries=1, solver_s=dt, detail=str(notes))


SEEDS = [0, 1, 7, 42, 100000, 2147483647, 3221225470]


def _seed_applied(ni: int, with_other: bool, seeded: bool) -> bool:
    n = SEEDS[ni]
    sql = (f"select random({n}) as r" + (", a" if with_other else "") + " from t1") if seeded else "select random() as r from t1"
    out = sqlglot.parse_one(sql, read="snowflake").transform(transforms.random)
    seed = out.args.get("seed")
    if not seeded:
        return not seed
    return bool(seed) and str(seed).startswith(str(n) + "/")


@ob(
    "C10.random_seed_is_always_applied",
    encodes=["fakesnow.transforms.random (seed extraction)"],
    bounds="RANDOM(n) for n in {0, 1, 7, 42, 100000, 2147483647, 3221225470} (edge values of the supported seed range) in a select list, alone or "
    "next to another column: the transform must emit a setseed argument built from exactly that n; RANDOM() without a seed must emit none",
    timeout=(120, 300),
)
def random_seed_applied(ni: int, with_other: bool, seeded: bool) -> bool:
    """
    pre: 0 <= ni < len(SEEDS)
    post: _
    """
    return done(fast.native(_seed_applied, fast.pick(ni, len(SEEDS)), bool(fast.pick(with_other, 2)), bool(fast.pick(seeded, 2))))


# ------------------------------------------------------------------ alias reuse in JOIN ... ON
JOIN_SHAPES = [
    # (sql, for each join in order: the expression its ON must start with, or None when the join has no ON / must stay as written)
    ("select c.id as cid, o.amount from customers c join orders o on cid = o.customer_id", ["C.ID"]),
    ("select c.id as cid, o.amount, r.rate from customers c cross join rates r join orders o on cid = o.customer_id", [None, "C.ID"]),
    ("select c.id as cid, o.amount from customers c, rates r join orders o on cid = o.customer_id", [None, "C.ID"]),
    ("select c.id as cid, o.amount from customers c join orders o on cid = o.customer_id join rates r on r.k = o.k", ["C.ID", "R.K"]),
    ("select c.id as cid, x.id as xid from customers c join orders o on o.customer_id = c.id join extras x on xid = o.extra_id", ["O.CUSTOMER_ID", "X.ID"]),
    ("select upper(c.name) as uname, o.amount from customers c left join orders o on uname = o.cname", ["UPPER(C.NAME)"]),
    ("select c.id, o.amount from customers c join orders o on c.id = o.customer_id", ["C.ID"]),
    ("with q as (select c.id as cid, o.amount from customers c cross join rates r join orders o on cid = o.customer_id) select * from q", [None, "C.ID"]),
]


def _alias_in_join(si: int) -> bool:
    from obligations.C11 import emitted

    sql, wants = JOIN_SHAPES[si]
    tree = emitted(sql)
    sel = tree.find(exp.Select) if not isinstance(tree, exp.Select) or tree.args.get("with") else tree
    inner = [s for s in tree.find_all(exp.Select) if s.args.get("joins")]
    if not inner:
        return False
    joins = inner[-1].args["joins"] if tree.args.get("with") else inner[0].args["joins"]
    ons = [j.args.get("on") for j in joins]
    if len(ons) != len(wants):
        return False
    for on, want in zip(ons, wants):
        if want is None:
            if on is not None:
                return False
            continue
        if on is None:
            return False
        left = on.this.sql(dialect="duckdb").upper().replace(" ", "")
        if left != want.replace(" ", ""):
            return False
    del sel
    return True


@ob(
    "C10.alias_reuse_in_join_on",
    encodes=["fakesnow.transforms.alias_in_join", "fakesnow.cursor.FakeSnowflakeCursor._transform"],
    bounds="8 SELECT shapes with 1-2 joins (an alias of the select list used as the left side of an ON; joins without ON - CROSS JOIN, comma join - before "
    "or after it; alias of an expression; no alias; inside a CTE): the ON that reaches the engine starts with the aliased expression exactly where an "
    "alias was used, and other joins are untouched",
    timeout=(200, 400),
)
def alias_in_join(si: int) -> bool:
    """
    pre: 0 <= si < len(JOIN_SHAPES)
    post: _
    """
    return done(fast.native(_alias_in_join, fast.pick(si, len(JOIN_SHAPES))))


# ------------------------------------------------------------------ rewrites compose when nested / applied to operator expressions
from obligations.C11 import nested_composes  # noqa: E402

FORMS = [
    "regexp_replace({a}, 'a', 'x')",
    "regexp_replace({a}, '\\\\d')",
    "regexp_substr({a}, 'a')",
    "regexp_substr({a}, '^.', 2)",
    "sha2({a})",
    "trim({a})",
    "upper({a})",
    "split({a}, ',')",
    "to_date({a})",
    "cast({a} as varchar)",
    "try_to_number({a}, 5)",
    "to_decimal({a}, 10, 2)",
    "dateadd(day, 1, cast({a} as date))",
    "equal_null({a}, 'x')",
    "nvl2({a}, 1, 2)",
    "datediff(day, cast({a} as date), '2020-01-01')",
    "cast({a} as number)",
    "to_timestamp({a})",
    "coalesce({a}, 'z')",
    "to_char({a})",
    "concat({a}, 'q')",
    "to_timestamp_ntz({a})",
    "cast({a} as int)",
    "cast({a} as float)",
    "({a}) || 'z'",
    "({a}) + 1",
]
# self-nesting that is broken on the pinned tree (listed finding C10-same-function-nested-not-rewritten)
SELF_NESTING_FINDING = {
    "regexp_substr({a}, 'a')", "regexp_substr({a}, '^.', 2)", "trim({a})", "split({a}, ',')", "try_to_number({a}, 5)", "to_decimal({a}, 10, 2)",
    "datediff(day, cast({a} as date), '2020-01-01')", "to_timestamp_ntz({a})",
}  # fmt: skip


def _fname(form: str) -> str:
    return form.split("(")[0]


def _nest(oi: int, ii: int) -> bool:
    outer, inner = FORMS[oi], FORMS[ii]
    if _fname(outer) == _fname(inner) and (outer in SELF_NESTING_FINDING or inner in SELF_NESTING_FINDING):
        return True
    if oi == ii:
        return True  # the identical form applied twice is idempotent for most forms: a difference there cannot be observed on the real stack
    ok, _a, _b = nested_composes(outer, inner)
    return ok


@ob(
    "C10.rewrites_compose_when_nested",
    encodes=["fakesnow.cursor.FakeSnowflakeCursor._transform (all transforms, in order; sqlglot Expression.transform does not revisit replaced nodes)", "fakesnow.transforms.regex_replace / regex_substr / to_decimal / try_to_number / trim_cast_varchar / dateadd_* / to_date / to_timestamp* / split / sha256"],
    bounds=f"{len(FORMS)} x {len(FORMS)} (outer, inner) pairs (outer != inner; same function with other arguments included) of rewritten functions and operator expressions (REGEXP_REPLACE with/without replacement, REGEXP_SUBSTR with/without "
    "position, SHA2, TRIM, SPLIT, TO_DATE, TO_DECIMAL, TRY_TO_NUMBER, DATEADD, DATEDIFF, EQUAL_NULL, NVL2, TO_TIMESTAMP[_NTZ], TO_CHAR, casts, ||, +): the engine SQL "
    "of outer(inner(s)), read back from the emitted text (so operator precedence counts), is outer's rewrite applied to inner's rewrite",
    timeout=(300, 600),
    carve="C10-same-function-nested-not-rewritten",
    shards=(2, 2),
)
def nesting(oi: int, ii: int) -> bool:
    """
    pre: 0 <= oi < len(FORMS) and 0 <= ii < len(FORMS) and (SHARD < 0 or oi % 2 == SHARD)
    post: _
    """
    return done(fast.native(_nest, fast.pick(oi, len(FORMS)), fast.pick(ii, len(FORMS))))


def _real_nesting(a: dict):
    from vf.real import real_cursor

    outer, inner = FORMS[a["oi"]], FORMS[a["ii"]]
    fs, conn, cur = real_cursor(False)
    try:
        cur.execute("create table t (s varchar)")
        cur.execute("insert into t values ('aaa-bbb 12'), ('2020-01-02'), ('xy')")
        cur.execute("create table t_step as select " + inner.format(a="s") + " as zz9 from t where s = 'aaa-bbb 12' or s = 'xy'")
        two = cur.execute(f"select {outer.format(a='zz9')} from t_step").fetchall()
        nested = cur.execute(f"select {outer.format(a=inner.format(a='s'))} from t where s = 'aaa-bbb 12' or s = 'xy'").fetchall()
    except Exception as e:  # noqa: BLE001
        return None, f"real stack: {type(e).__name__}: {str(e)[:160]}"
    return nested != two, f"real stack: nested -> {nested}; outer over the stored inner result -> {two}"


REGISTRY["C10.rewrites_compose_when_nested"].real_replay = _real_nesting


# ------------------------------------------------------------------ IDENTIFIER('<name>') denotes the object the name denotes
IDENT_NAMES = [
    ("t1", ("DB1", "S1", "T1")),
    ("T1", ("DB1", "S1", "T1")),
    ("s2.t1", ("DB1", "S2", "T1")),
    ("S2.T1", ("DB1", "S2", "T1")),
    ("db1.s2.t1", ("DB1", "S2", "T1")),
    ("db2.s1.t1", ("DB2", "S1", "T1")),
    ("DB2.S1.T1", ("DB2", "S1", "T1")),
]
IDENT_STMTS = [
    ("select a from identifier('{n}')", "source"),
    ("insert into identifier('{n}') (a) values (1)", "target"),
    ("delete from identifier('{n}') where a = 3", "target"),
    ("update identifier('{n}') set a = 2", "target"),
    ("select a from identifier($tname)", "source"),
    ("insert into identifier($tname) (a) values (2)", "target"),
]


def _identifier(ni: int, si: int, moved: bool) -> bool:
    from vf.session import instance, std_engine

    name, want = IDENT_NAMES[ni]
    tmpl, how = IDENT_STMTS[si]
    eng = std_engine()
    eng.add_schema("DB2", "S2")
    eng.add_table("DB2", "S2", "T1", [("A", "BIGINT")])
    conn = instance(eng).connect(database="db1", schema="s1")
    cur = conn.cursor()
    if "$tname" in tmpl:
        cur.execute(f"set tname = '{name}'")
    if moved:
        # a qualified name keeps denoting the same object when the session moves elsewhere; partly qualified parts follow the session
        cur.execute("use schema db2.s2")
        d, s, t = want
        parts = name.split(".")
        want = (d if len(parts) == 3 else "DB2", s if len(parts) >= 2 else "S2", t)
    duck = conn._duck_conn
    duck.sources, duck.last_target = [], None
    cur.execute(tmpl.format(n=name))
    resolved = (duck.sources[0] if duck.sources else None) if how == "source" else duck.last_target
    return resolved is not None and tuple(resolved[:3]) == want


@ob(
    "C10.identifier_function_denotes_the_named_object",
    encodes=["fakesnow.transforms.identifier", "fakesnow.cursor.FakeSnowflakeCursor.execute/_transform (order of variable inlining, IDENTIFIER() and name folding)"],
    bounds="7 names (unqualified, schema-qualified, fully qualified, lower / upper case) x 6 statements (SELECT / INSERT / DELETE / UPDATE with IDENTIFIER('<name>'), SELECT / INSERT "
    "with IDENTIFIER($variable)) x session on db1.s1 or moved to db2.s2 by USE SCHEMA (same-named tables exist in all four schemas): the object the engine reads or writes "
    "is the one the name denotes under the session context",
    timeout=(200, 400),
    stubs=["K2 vf.duckstub.Engine (records the catalog object each statement resolves to)"],
)
def identifier_function(ni: int, si: int, moved: bool) -> bool:
    """
    pre: 0 <= ni < len(IDENT_NAMES) and 0 <= si < len(IDENT_STMTS)
    post: _
    """
    return done(fast.native(_identifier, fast.pick(ni, len(IDENT_NAMES)), fast.pick(si, len(IDENT_STMTS)), bool(fast.pick(moved, 2))))


def _real_identifier(a: dict):
    from vf.real import real_cursor

    name, _want = IDENT_NAMES[a["ni"]]
    tmpl, how = IDENT_STMTS[a["si"]]
    fs, conn, cur = real_cursor(False)
    for ddl in ("create schema db1.s2", "create database db2", "create schema db2.s1", "create schema db2.s2"):
        cur.execute(ddl)
    marks = {"db1.s1": 11, "db1.s2": 12, "db2.s1": 21, "db2.s2": 22}
    for k, v in marks.items():
        cur.execute(f"create table {k}.t1 (a int, m int default {v})")
        cur.execute(f"insert into {k}.t1 (a, m) values (3, {v})")
    if "$tname" in tmpl:
        cur.execute(f"set tname = '{name}'")
    here = "db1.s1"
    if a["moved"]:
        cur.execute("use schema db2.s2")
        here = "db2.s2"
    parts = name.lower().split(".")
    full = ".".join(here.split(".")[: 3 - len(parts)] + parts)
    key = full.rsplit(".", 1)[0]
    try:
        cur.execute(tmpl.format(n=name))
        if how == "source":
            got = cur.fetchall()
            seen = cur.execute(f"select a from {key}.t1").fetchall()
            return got != seen, f"real stack: {tmpl.format(n=name)!r} from {here} returned {got}, {key}.t1 holds {seen}"
    except Exception as e:  # noqa: BLE001
        return True, f"real stack: {type(e).__name__}: {str(e)[:120]}"
    # a write: exactly the named table changed
    changed = []
    for k, v in marks.items():
        rows = cur.execute(f"select a, m from {k}.t1 order by 1").fetchall()
        if rows != [(3, v)]:
            changed.append(k)
    return changed != [key], f"real stack: {tmpl.format(n=name)!r} from {here} changed tables {changed}, expected [{key!r}]"


REGISTRY["C10.identifier_function_denotes_the_named_object"].real_replay = _real_identifier
