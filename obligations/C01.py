"""C01 - stored values read back unchanged, in the connector's Python types.

Reduction: a value v written to a column of Snowflake type T comes back equal and with the connector's Python class iff
(a) fakesnow maps T to a DuckDB type whose domain contains T's domain  - decided by SMT per type keyword (E2): the DuckDB type is
    read off the CREATE TABLE that the real pipeline emits, both domains are integer / floating-point constraints;
(b) the literal / parameter text denotes v                               - C08;
(c) the Python class DuckDB+pyarrow return for that type is the connector's class for the Snowflake type fakesnow REPORTS  - decided
    over a symbolic type tag and DECIMAL(p,s) against the real describe_as_rowtype;
(d) write_pandas builds an INSERT naming exactly the frame's columns, JSON-encoding dict/list cells only  - CrossHair on symbolic names;
(e) DuckDB stores and pyarrow converts values of its own types exactly  - K1/K5/K6, trusted.
"""
from __future__ import annotations

import json

import z3
from sqlglot import exp

import fakesnow.pandas_tools as fpt
import fakesnow.types as ftypes
from obligations.C11 import emitted
from vf import fast, rematch
from vf.registry import REGISTRY, SHARD, SmtResult, done, ob, tier
from vf.smt import check

fast.install()
ftypes.re = rematch

META = {
    "level": "other",
    "explanation": "C01: per Snowflake type keyword an SMT query searches for a value the Snowflake type admits and the DuckDB type chosen by the real "
    "pipeline does not (scaled integers for fixed point, binary64/binary32 for floats, integer microsecond counts for timestamps); symbolic "
    "type tags / precision / scale for the Python-class consistency; symbolic column names through the real write_pandas.",
    "assumptions": [
        "K1/K5/K6: DuckDB stores values of its own types exactly and pyarrow returns the Python classes listed in PYCLASS (validated against real "
        "DuckDB at start-up)",
        "K8: Snowflake domains as documented: NUMBER(p,s) = scaled integers |v| < 10^p, integer family = NUMBER(38,0), FLOAT family = binary64, "
        "TIMESTAMP_* and TIME to the microsecond between 0001-01-01 and 9999-12-31, VARCHAR up to 16 MiB of any unicode",
        "known findings carved out: the integer family is stored as 64-bit BIGINT; NUMBER(p,0) / plain NUMBER values come back as Decimal; "
        "write_pandas column names containing a double quote",
    ],
}

I64 = (-(2**63), 2**63 - 1)
US_MIN = -62135596800 * 10**6
US_MAX = 253402300799 * 10**6 + 999_999

# Snowflake type keyword -> ("fixed", p, s) | ("float",) | ("text",) | ("binary",) | ("bool",) | ("date",) | ("time",) | ("ts", tz?) | ("json",)
SF_TYPES = {
    "boolean": ("bool",),
    "number": ("fixed", 38, 0),
    "decimal": ("fixed", 38, 0),
    "numeric": ("fixed", 38, 0),
    "number(10,2)": ("fixed", 10, 2),
    "number(38,0)": ("fixed", 38, 0),
    "number(38,37)": ("fixed", 38, 37),
    "decimal(1,0)": ("fixed", 1, 0),
    "numeric(20,10)": ("fixed", 20, 10),
    "number(5)": ("fixed", 5, 0),
    "int": ("int64",),
    "integer": ("int64",),
    "bigint": ("int64",),
    "smallint": ("int64",),
    "tinyint": ("int64",),
    "byteint": ("int64",),
    "float": ("float",),
    "float4": ("float",),
    "float8": ("float",),
    "double": ("float",),
    "double precision": ("float",),
    "real": ("float",),
    "varchar": ("text",),
    "varchar(10)": ("text",),
    "char(5)": ("text",),
    "string": ("text",),
    "text": ("text",),
    "binary": ("binary",),
    "varbinary": ("binary",),
    "date": ("date",),
    "time": ("time",),
    "timestamp": ("ts", False),
    "timestamp_ntz": ("ts", False),
    "timestamp_ntz(9)": ("ts", False),
    "datetime": ("ts", False),
    "timestamp_tz": ("ts", True),
    "variant": ("json",),
    "object": ("json",),
    "array": ("json",),
}
KEYS = sorted(SF_TYPES)


def _duck_domain(dtype: str, v, fv):
    """z3 constraint 'value fits the DuckDB type' for: integer-valued v (already scaled for DECIMAL / microseconds for time types) or binary64 fv."""
    d = dtype.upper().replace(" ", "")
    ints = {"TINYINT": 8, "SMALLINT": 16, "INTEGER": 32, "INT": 32, "BIGINT": 64, "HUGEINT": 128}
    if d in ints:
        b = ints[d]
        return ("int", z3.And(v >= -(2 ** (b - 1)), v <= 2 ** (b - 1) - 1), 0)
    if d.startswith("DECIMAL"):
        inner = d[d.index("(") + 1 : d.index(")")] if "(" in d else "18,3"
        parts = inner.split(",")
        p, s = int(parts[0]), int(parts[1]) if len(parts) > 1 else 0
        return ("decimal", (p, s), 0)
    if d in ("DOUBLE", "FLOAT8"):
        return ("float", z3.BoolVal(True), 64)
    if d in ("FLOAT", "REAL", "FLOAT4"):
        return ("float", None, 32)
    if d in ("TEXT", "VARCHAR", "STRING"):
        return ("text", None, 0)
    if d.startswith("VARCHAR(") or d.startswith("TEXT("):
        return ("text", None, 0)  # DuckDB ignores declared lengths
    if d in ("BLOB", "BYTEA", "BINARY", "VARBINARY"):
        return ("binary", None, 0)
    if d == "BOOLEAN":
        return ("bool", None, 0)
    if d == "DATE":
        return ("date", None, 0)
    if d == "TIME":
        return ("time", None, 0)
    if d in ("TIMESTAMP", "DATETIME"):
        return ("ts_us", z3.And(v >= I64[0], v <= I64[1]), False)
    if d in ("TIMESTAMPTZ", "TIMESTAMPWITHTIMEZONE"):
        return ("ts_us", z3.And(v >= I64[0], v <= I64[1]), True)
    if d == "TIMESTAMP_NS":
        return ("ts_ns", z3.And(v * 1000 >= I64[0], v * 1000 <= I64[1]), False)
    if d == "TIMESTAMP_MS":
        return ("ts_ms", None, False)
    if d == "TIMESTAMP_S":
        return ("ts_s", None, False)
    if d == "JSON":
        return ("json", None, 0)
    return ("unknown", None, 0)


def _capacity(keyword: str, ddl_form: int):
    """-> (verdict, detail, model)"""
    sf = SF_TYPES[keyword]
    if ddl_form == 0:
        tree = emitted(f"create table tcap (c {keyword})")
        kinds = [cd.args["kind"].sql(dialect="duckdb") for cd in tree.find_all(exp.ColumnDef)]
    elif ddl_form == 1:
        tree = emitted(f"create table tcap as select cast(x as {keyword}) as c from t")
        kinds = [c.to.sql(dialect="duckdb") for c in tree.find_all(exp.Cast)]
    else:
        tree = emitted(f"create or replace table tcap (a int, c {keyword} not null, z varchar)")
        kinds = [cd.args["kind"].sql(dialect="duckdb") for cd in tree.find_all(exp.ColumnDef)][1:2]
    if len(kinds) != 1:
        return "sat", f"{keyword}: emitted DDL has column types {kinds}", {"keyword": keyword, "value": None}
    dtype = kinds[0]
    v = z3.Int("v")
    fv = z3.FP("fv", z3.Float64())
    kind, dom, extra = _duck_domain(dtype, v, fv)
    if kind == "unknown":
        return "sat", f"{keyword} -> DuckDB type {dtype} is not one the harness knows to hold such values", {"keyword": keyword, "value": None, "duck": dtype}
    cls = sf[0]
    if cls == "fixed" or cls == "int64":
        p, s = (sf[1], sf[2]) if cls == "fixed" else (None, 0)
        if kind == "decimal":
            dp, ds = dom
            # scaled integer u = v*10^s; fits DECIMAL(dp,ds) iff ds >= s representable and |u*10^(ds-s)| < 10^dp
            if ds < s:
                return "sat", f"{keyword} -> {dtype}: scale {ds} < {s} loses fractional digits", {"keyword": keyword, "value": f"10^-{s}"}
            query = [z3.And(v > -(10**p), v < 10**p), z3.Not(z3.And(v * 10 ** (ds - s) > -(10**dp), v * 10 ** (ds - s) < 10**dp))]
        elif kind == "int":
            if s != 0:
                return "sat", f"{keyword} -> {dtype}: integer type cannot hold scale {s}", {"keyword": keyword, "value": f"10^-{s}"}
            sf_dom = z3.And(v >= I64[0], v <= I64[1]) if cls == "int64" else z3.And(v > -(10**p), v < 10**p)
            query = [sf_dom, z3.Not(dom)]
        else:
            return "sat", f"{keyword} -> {dtype}: not a fixed-point type", {"keyword": keyword, "value": 1}
        verdict, model, dt, notes = check(query, timeout_s=60)
        if verdict == "sat":
            return "sat", f"{keyword} -> {dtype}", {"keyword": keyword, "value": str(model.eval(v, model_completion=True)), "scale": s, "duck": dtype}
        return verdict, f"{keyword} -> {dtype}", None
    if cls == "float":
        if kind != "float":
            return "sat", f"{keyword} -> {dtype}: not a floating-point type", {"keyword": keyword, "value": 0.5}
        if extra == 64:
            return "unsat", f"{keyword} -> {dtype}", None
        # binary32 target: exists a finite binary64 that does not survive the round trip through binary32
        f32 = z3.fpToFP(z3.RNE(), fv, z3.Float32())
        back = z3.fpToFP(z3.RNE(), f32, z3.Float64())
        verdict, model, dt, notes = check([z3.Not(z3.fpIsNaN(fv)), z3.Not(z3.fpIsInf(fv)), z3.Not(z3.fpEQ(back, fv))], timeout_s=60)
        if verdict == "sat":
            return "sat", f"{keyword} -> {dtype} (32-bit)", {"keyword": keyword, "value": str(model.eval(fv)), "duck": dtype}
        return verdict, f"{keyword} -> {dtype}", None
    if cls == "ts":
        want_tz = sf[1]
        if kind == "ts_us":
            if bool(extra) != bool(want_tz):
                return "sat", f"{keyword} -> {dtype}: time-zone awareness differs", {"keyword": keyword, "value": 0}
            query = [z3.And(v >= US_MIN, v <= US_MAX), z3.Not(dom)]
        elif kind == "ts_ns":
            query = [z3.And(v >= US_MIN, v <= US_MAX), z3.Not(dom)]
        elif kind in ("ts_ms", "ts_s"):
            return "sat", f"{keyword} -> {dtype}: coarser than a microsecond", {"keyword": keyword, "value": 1}
        else:
            return "sat", f"{keyword} -> {dtype}: not a timestamp type", {"keyword": keyword, "value": 0}
        verdict, model, dt, notes = check(query, timeout_s=60)
        if verdict == "sat":
            return "sat", f"{keyword} -> {dtype}", {"keyword": keyword, "value": model.eval(v, model_completion=True).as_long(), "unit": "us since epoch", "duck": dtype}
        return verdict, f"{keyword} -> {dtype}", None
    same = {"text": "text", "binary": "binary", "bool": "bool", "date": "date", "time": "time", "json": "json"}
    if same.get(cls) == kind:
        return "unsat", f"{keyword} -> {dtype}", None
    return "sat", f"{keyword} -> {dtype}: different type family", {"keyword": keyword, "value": None, "duck": dtype}


def _real_capacity(a: dict):
    from vf.real import real_cursor

    kw = a.get("keyword")
    if kw is None:
        return None, "no keyword"
    fs, conn, cur = real_cursor(False)
    cur.execute(f"create table tcap (c {kw})")
    sf = SF_TYPES[kw]
    try:
        if sf[0] in ("fixed", "int64"):
            val = a.get("value")
            if val is None or not str(val).lstrip("-").isdigit():
                return None, "no concrete value"
            s = a.get("scale", 0)
            txt = str(val)
            if s:
                neg = txt.startswith("-")
                digits = txt.lstrip("-").rjust(s + 1, "0")
                txt = ("-" if neg else "") + digits[:-s] + "." + digits[-s:]
            cur.execute(f"insert into tcap values ({txt})")
            got = cur.execute("select c from tcap").fetchall()[0][0]
            from decimal import Decimal

            return Decimal(str(got)) != Decimal(txt), f"real stack: {txt} into {kw} came back {got!r}"
        if sf[0] == "ts":
            import datetime

            us = int(a["value"])
            dt = datetime.datetime(1970, 1, 1) + datetime.timedelta(microseconds=us)
            cur.execute(f"insert into tcap values ('{dt.isoformat(sep=' ')}')")
            got = cur.execute("select c from tcap").fetchall()[0][0]
            return got.replace(tzinfo=None) != dt, f"real stack: {dt} into {kw} came back {got!r}"
        if sf[0] == "float":
            cur.execute("insert into tcap values (0.1)")
            got = cur.execute("select c from tcap").fetchall()[0][0]
            return got != 0.1, f"real stack: 0.1 into {kw} came back {got!r}"
    except Exception as e:  # noqa: BLE001
        return True, f"real stack: storing the value raised {type(e).__name__}: {str(e)[:100]}"
    return None, "not replayable"


@ob(
    "C01.duckdb_type_holds_every_snowflake_value",
    kind="smt",
    encodes=["fakesnow.transforms.integer_precision", "float_to_double", "timestamp_ntz", "semi_structured_types", "fakesnow.cursor.FakeSnowflakeCursor._transform (emitted CREATE TABLE / CTAS)"],
    bounds=f"{len(SF_TYPES)} Snowflake type spellings (BOOLEAN, NUMBER/DECIMAL/NUMERIC with and without (p,s) incl. (38,0) and (38,37), the integer family, "
    "the FLOAT family, VARCHAR/CHAR/STRING/TEXT, BINARY, DATE, TIME, TIMESTAMP_NTZ/TZ/DATETIME, VARIANT/OBJECT/ARRAY) x 3 DDL forms (column "
    "definition, CTAS with cast, CREATE OR REPLACE with NOT NULL); value domains unbounded within the types (no bound on v)",
    timeout=(300, 600),
    real_replay=_real_capacity,
    carve="C01-integer-family-is-64-bit",
)
def capacity() -> SmtResult:
    queries, secs, samples = 0, 0.0, []
    for kw in KEYS:
        for form in (0, 1, 2):
            try:
                verdict, detail, model = _capacity(kw, form)
            except Exception as e:  # noqa: BLE001
                return SmtResult("counterexample", queries=queries, solver_s=secs, detail=f"{kw} (DDL form {form}): pipeline raised {type(e).__name__}: {e}", model={"keyword": kw, "value": None}, programs=queries)
            queries += 1
            if verdict == "sat":
                return SmtResult("counterexample", queries=queries, solver_s=secs, detail=detail, model=model, samples=samples, programs=queries)
            if verdict != "unsat":
                return SmtResult("inconclusive", queries=queries, solver_s=secs, detail=f"{kw}: solver {verdict}", samples=samples, programs=queries)
            if len(samples) < 4 and form == 0:
                samples.append({"type": detail, "verdict": "unsat"})
    return SmtResult("holds", queries=queries, solver_s=secs, detail=f"{queries} (type, DDL form) pairs: no value of the Snowflake type falls outside the DuckDB type", samples=samples, programs=queries)


# ------------------------------------------------------------------ (c) Python class vs reported type
PYCLASS = {
    "BIGINT": "int",
    "INTEGER": "int",
    "DOUBLE": "float",
    "VARCHAR": "str",
    "BOOLEAN": "bool",
    "DATE": "date",
    "TIME": "time",
    "TIMESTAMP": "datetime",
    "TIMESTAMP WITH TIME ZONE": "datetime",
    "BLOB": "bytes",
    "JSON": "str",
    "DECIMAL": "Decimal",
}
TAGS = sorted(k for k in PYCLASS if k != "DECIMAL")
CONNECTOR_CLASS = {  # snowflake type reported -> Python class the real connector returns for it
    "fixed0": "int",
    "fixedN": "Decimal",
    "real": "float",
    "text": "str",
    "boolean": "bool",
    "date": "date",
    "time": "time",
    "timestamp_ntz": "datetime",
    "timestamp_tz": "datetime",
    "binary": "bytes",
    "variant": "str",
}


def validate_contracts():
    """K6: the Python class real DuckDB + pyarrow return per DuckDB type equals PYCLASS."""
    from vf.real import real_cursor

    fs, conn, cur = real_cursor(False)
    probes = {
        "BIGINT": "1::bigint", "INTEGER": "1::integer", "DOUBLE": "1.5::double", "VARCHAR": "'a'::varchar", "BOOLEAN": "true", "DATE": "date '2020-01-02'",
        "TIME": "time '01:02:03'", "TIMESTAMP": "timestamp '2020-01-02 03:04:05'", "TIMESTAMP WITH TIME ZONE": "timestamptz '2020-01-02 03:04:05+00'",
        "BLOB": "'ab'::blob", "JSON": "'{}'::json", "DECIMAL": "1.5::decimal(10,2)",
    }
    ok, detail = True, ""
    for tag, expr in probes.items():
        conn._duck_conn.execute(f"select {expr} as c")
        val = conn._duck_conn.fetch_arrow_table().to_pylist()[0]["c"]
        if type(val).__name__ != PYCLASS[tag]:
            ok, detail = False, f"{tag}: pyarrow gives {type(val).__name__}, table says {PYCLASS[tag]}"
    return [("K5/K6 Python class per DuckDB type (DuckDB -> arrow -> to_pylist)", ok, detail)] + rematch.validate_rematch()


@ob(
    "C01.python_class_matches_reported_type",
    encodes=["fakesnow.types.describe_as_rowtype"],
    bounds="DuckDB column type: a tag drawn by symbolic index from the 11 plain types or DECIMAL(p,s) with symbolic 1 <= p <= 38, 1 <= s <= p (scale 0 is a "
    "listed finding): the Python class pyarrow returns for it is the class the connector uses for the Snowflake type fakesnow reports",
    timeout=(200, 400),
    carve="C01-scale-zero-numbers-come-back-as-decimal",
    stubs=["K10 vf.rematch inside fakesnow.types", "K5/K6 PYCLASS table validated against real DuckDB"],
)
def python_class(ti: int, p: int, s: int) -> bool:
    """
    pre: 0 <= ti <= len(TAGS) and 1 <= p <= 38 and 1 <= s <= p
    post: _
    """
    k = fast.pick(ti, len(TAGS) + 1)
    if k == len(TAGS):
        dtype, cls = "DECIMAL(" + str(p) + "," + str(s) + ")", PYCLASS["DECIMAL"]
    else:
        dtype, cls = TAGS[k], PYCLASS[TAGS[k]]
    info = ftypes.describe_as_rowtype([("C", dtype, "YES", None, None, None)])[0]
    sf = info["type"]
    if sf == "fixed":
        key = "fixed0" if info["scale"] == 0 else "fixedN"
    else:
        key = sf
    return done(CONNECTOR_CLASS.get(key) == cls)


# ------------------------------------------------------------------ (d) write_pandas statement construction
class _Series:
    def __init__(self, vals):
        self.vals = list(vals)

    def apply(self, fn):
        return _Series([fn(v) for v in self.vals])


class _Cols:
    def __init__(self, names):
        self.names = list(names)

    def to_list(self):
        return list(self.names)

    def __iter__(self):
        return iter(self.names)


class _DTypes:
    def __init__(self, d):
        self.d = d

    def to_dict(self):
        return dict(self.d)


class FakeDF:
    """What fakesnow.pandas_tools uses of a DataFrame."""

    def __init__(self, names, dtypes, data):
        self.names, self._dtypes, self.data = list(names), list(dtypes), {i: list(v) for i, v in enumerate(data)}

    def copy(self):
        return FakeDF(self.names, self._dtypes, [self.data[i] for i in range(len(self.names))])

    @property
    def columns(self):
        return _Cols(self.names)

    @property
    def dtypes(self):
        return _DTypes({n: t for n, t in zip(self.names, self._dtypes)})

    def select_dtypes(self, include=None):
        idx = [i for i, t in enumerate(self._dtypes) if str(t) in (include or [])]
        return FakeDF([self.names[i] for i in idx], [self._dtypes[i] for i in idx], [self.data[i] for i in idx])

    def _idx(self, name):
        for i, n in enumerate(self.names):
            if n == name:
                return i
        raise KeyError(name)

    def __getitem__(self, name):
        return _Series(self.data[self._idx(name)])

    def __setitem__(self, name, series):
        self.data[self._idx(name)] = list(series.vals)


class _RecDuck:
    def __init__(self):
        self.sql = []
        self.frame = None

    def execute(self, sql, params=None):
        self.sql.append(sql)
        return self

    def fetchall(self):
        return [(2,)]


def _read_insert(text: str):
    """Parse INSERT INTO <name>(<quoted identifiers>) SELECT * FROM df with DuckDB's identifier rule; returns (name, [cols]) or None."""
    pre = "INSERT INTO "
    if not text.startswith(pre) or not text.endswith(") SELECT * FROM df"):
        return None
    body = text[len(pre) : len(text) - len(") SELECT * FROM df")]
    i = body.find("(")
    if i < 0:
        return None
    name, lst = body[:i], body[i + 1 :]
    cols = []
    j = 0
    n = len(lst)
    while j < n:
        if lst[j] != '"':
            return None
        j += 1
        cur = ""
        while True:
            if j >= n:
                return None
            if lst[j] == '"':
                if j + 1 < n and lst[j + 1] == '"':
                    cur += '"'
                    j += 2
                    continue
                j += 1
                break
            cur += lst[j]
            j += 1
        cols.append(cur)
        if j < n:
            if lst[j] != ",":
                return None
            j += 1
    return name, cols


DQ = chr(34)


@ob(
    "C01.write_pandas_names_exactly_the_columns",
    encodes=["fakesnow.pandas_tools.write_pandas", "fakesnow.pandas_tools._insert_df"],
    bounds="a frame of 1..3 columns whose names are symbolic strings (any unicode without a double quote, |name| <= 2/3), object and int64 dtypes, cells "
    "that are strings, dicts, lists or None; table name with/without schema and database: the INSERT names exactly the frame's columns in order "
    "(read with DuckDB's quoted-identifier rule), dict/list cells are JSON text, other cells untouched, and the reported count is DuckDB's",
    timeout=(300, 900),
    stubs=["FakeDF (the DataFrame methods pandas_tools uses)", "recording DuckDB connection"],
    carve="C01-write-pandas-double-quote-in-column-name",
    shards=(9, 9),
)
def write_pandas_columns(c0: str, c1: str, c2: str, n: int, qual: int) -> bool:
    """
    pre: 1 <= n <= 3 and len(c0) <= LN and len(c1) <= LN and len(c2) <= LN and 0 <= qual <= 2 and (SHARD < 0 or (n == SHARD % 3 + 1 and qual == SHARD // 3))
    pre: (n >= 3 or len(c2) == 0) and (n >= 2 or len(c1) == 0)
    pre: all(ch != DQ for ch in c0) and all(ch != DQ for ch in c1) and all(ch != DQ for ch in c2)
    post: _
    """
    n = fast.pick(n, 4)
    names = [c0, c1, c2][:n]
    cells = [["s", {"k": 1}], [[1, 2], None], [5, 6]][:n]
    dtypes = ["object", "object", "int64"][:n]
    df = FakeDF(names, dtypes, cells)
    duck = _RecDuck()
    conn = type("C", (), {})()
    conn._duck_conn = duck
    q = fast.pick(qual, 3)
    kw = {} if q == 0 else {"schema": "S9"} if q == 1 else {"schema": "S9", "database": "D9"}
    ok, nchunks, count, _res = fpt.write_pandas(conn, df, "TBL", **kw)
    if not ok or count != 2 or len(duck.sql) != 1:
        return done(False)
    parsed = _read_insert(duck.sql[0])
    if parsed is None:
        return done(False)
    tname, cols = parsed
    want_name = "TBL" if q == 0 else "S9.TBL" if q == 1 else "D9.S9.TBL"
    if tname != want_name or len(cols) != n:
        return done(False)
    for a, b in zip(cols, names):
        if a != b:
            return done(False)
    # the caller's frame is not modified
    return done(df.data[0] == ["s", {"k": 1}])


LN = tier(2, 3)


def _cells() -> bool:
    """dict/list cells are JSON-encoded, strings / None / numbers are not (concrete: the cell values do not depend on anything symbolic)."""
    seen = {}

    class Duck(_RecDuck):
        pass

    df = FakeDF(["A", "B", "C"], ["object", "object", "int64"], [["s", {"k": [1, 2]}, None], [[1, "x"], "t", {"a": None}], [5, 6, 7]])
    orig = fpt._insert_df

    def spy(duck_conn, frame, name):
        # capture the frame the INSERT reads: _insert_df transforms a copy, so re-run its transformation here through the real function
        return orig(duck_conn, frame, name)

    duck = Duck()
    # run the real _insert_df on a frame whose copy() returns an observable object
    holder = {}

    class ObsDF(FakeDF):
        def copy(self):
            c = FakeDF.copy(self)
            holder["copy"] = c
            return c

    df = ObsDF(df.names, df._dtypes, [df.data[i] for i in range(3)])
    fpt._insert_df(duck, df, "T")
    c = holder["copy"]
    del seen, spy
    return (
        c.data[0] == ["s", json.dumps({"k": [1, 2]}), None]
        and c.data[1] == [json.dumps([1, "x"]), "t", json.dumps({"a": None})]
        and c.data[2] == [5, 6, 7]
        and df.data[0][1] == {"k": [1, 2]}
    )


@ob(
    "C01.write_pandas_json_encodes_only_containers",
    encodes=["fakesnow.pandas_tools._insert_df"],
    bounds="object columns holding strings, dicts, lists and None, and an int64 column: exactly the dict / list cells are replaced by their JSON text in the "
    "copy that is inserted; the caller's frame is untouched",
    timeout=(60, 120),
    stubs=["FakeDF", "recording DuckDB connection"],
)
def write_pandas_cells(dummy: bool) -> bool:
    """
    post: _
    """
    return done(fast.native(_cells))


# ------------------------------------------------------------------ (b) bound values reach the engine as the literals that denote them
PVALS = ["plain", "it's", "a\\b", "l1\nl2", "US$100", "$HOME", "$v1 per unit", "100% $x", "", "é中🙂", "'; drop table t1; --", "/* c */", "?"]


def _bound_values(pi: int, n: int, defined: bool, many: bool) -> bool:
    from sqlglot import exp as E
    from sqlglot import parse_one

    from vf.session import instance, std_engine
    from vf.sqlunit import duckdb_read_literal

    eng = std_engine()
    conn = instance(eng).connect(database="db1", schema="s1")
    cur = conn.cursor()
    if defined:
        cur.execute("set v1 = 5")
        cur.execute("set home = 'h'")
    s = PVALS[pi]
    base = len(eng.log)
    if many:
        cur.executemany("insert into t1 (a, b) values (%s, %s)", [(n, s), (n + 1, s)])
    else:
        cur.execute("insert into t1 (a, b) values (%(a)s, %(b)s)", {"a": n, "b": s})
    inserts = [q for _c, q in eng.log[base:] if isinstance(q, str) and q.lstrip().upper().startswith("INSERT")]
    if len(inserts) != (2 if many else 1):
        return False
    for k, q in enumerate(inserts):
        tree = parse_one(q, read="duckdb")
        tup = tree.find(E.Values).expressions[0].expressions
        if len(tup) != 2:
            return False
        a, b = tup
        av = -int(a.this.this) if isinstance(a, E.Neg) else int(a.this)
        if av != n + k or not (isinstance(b, E.Literal) and b.is_string):
            return False
        # what DuckDB reads from the literal text fakesnow wrote
        start = q.index("VALUES")
        lit = q[q.index("'", start) : q.rindex("'") + 1]
        if duckdb_read_literal(lit) != s:
            return False
    return True


@ob(
    "C01.bound_values_reach_the_engine_unchanged",
    encodes=["fakesnow.cursor.FakeSnowflakeCursor.execute/executemany/_rewrite_with_params/_inline_variables (ordering)", "sqlglot Snowflake parse -> DuckDB generate of the bound literal"],
    bounds="13 parameter strings (quotes, backslashes, newlines, $name / $digit, %, unicode incl. astral, comment markers, ?, empty) x an int -3..12 bound "
    "next to them x session variables with matching names defined or not x execute (dict) / executemany (tuples): the INSERT reaching the engine carries "
    "literals that DuckDB reads back as exactly the bound values",
    timeout=(300, 600),
    stubs=["K1/K2 vf.duckstub.Engine", "K2-literal duckdb_read_literal"],
    shards=(13, 13),
)
def bound_values(pi: int, n: int, defined: bool, many: bool) -> bool:
    """
    pre: 0 <= pi < len(PVALS) and -3 <= n <= 12 and (SHARD < 0 or pi == SHARD)
    post: _
    """
    return done(fast.native(_bound_values, fast.pick(pi, len(PVALS)), fast.pick(n + 3, 16) - 3, bool(fast.pick(defined, 2)), bool(fast.pick(many, 2))))


def _real_bound(a: dict):
    from vf.real import real_cursor

    fs, conn, cur = real_cursor(False)
    cur.execute("create table t1 (a int, b varchar)")
    if a["defined"]:
        cur.execute("set v1 = 5")
        cur.execute("set home = 'h'")
    s, n = PVALS[a["pi"]], a["n"]
    try:
        if a["many"]:
            cur.executemany("insert into t1 (a, b) values (%s, %s)", [(n, s), (n + 1, s)])
            want = [(n, s), (n + 1, s)]
        else:
            cur.execute("insert into t1 (a, b) values (%(a)s, %(b)s)", {"a": n, "b": s})
            want = [(n, s)]
        got = cur.execute("select a, b from t1 order by a").fetchall()
    except Exception as e:  # noqa: BLE001
        return True, f"real stack raised {type(e).__name__}: {str(e)[:100]}"
    return got != want, f"real stack: stored {got!r}, bound {want!r}"


REGISTRY["C01.bound_values_reach_the_engine_unchanged"].real_replay = _real_bound


# ------------------------------------------------------------------ "every written row is returned exactly once": the fetch path (shared with C05)
import obligations.C05  # noqa: E402,F401
from vf.registry import alias  # noqa: E402

alias("C01.every_row_is_returned_exactly_once", "C05.exactly_once_in_order", "rows of a result reach the caller once each, in order, whatever mix of fetchone / fetchmany / fetchall / arraysize is used")
alias("C01.rows_keep_one_value_per_column", "C05.full_width_any_names")

# ------------------------------------------------------------------ SQL literals written through execute_string (shared with C16)
import obligations.C16  # noqa: E402,F401

alias("C01.literals_survive_being_rerendered", "C16.rerendered_literal_round_trip", "a string literal of a script statement is re-rendered before it is executed: any text (backslashes, quotes, escapes) must reach the engine as the same value")
alias("C01.script_statements_store_what_single_statements_store", "C16.execute_string_equals_one_by_one", "values written by a statement of an execute_string script equal those written by executing the statement alone")

alias("C01.rows_are_not_dropped_by_unrelated_noop_patterns", "C16.nop_regexes_only_noop_matches", "a statement that merely CONTAINS the text of a no-op pattern (in a literal or a bound value) is executed: every written row is stored")
