"""C16 - execute_string equals one-by-one execution; nop_regexes only no-op matches.

Engine E1.  execute_string re-renders every parsed statement with the Snowflake generator and executes it again, so
literals and quoted identifiers take an extra generate -> lex round trip: decided on symbolic text with the real
generator and the real lexer routines.  Statement-list structure and nop_regexes are decided through the real
execute_string / execute against the stub engine with symbolic choices of statements, separators and comments.
"""
from __future__ import annotations

from snowflake.connector.cursor import DictCursor

from vf import fast
from vf.duckstub import validate_engine
from vf.registry import REGISTRY, SHARD, done, ob, tier
from vf.session import instance, std_engine
from vf.sqlunit import scan_quoted_identifier, scan_string_literal

fast.install()

META = {
    "level": "other",
    "explanation": "C16: literal / identifier text is symbolic over unicode (length-bounded) through the real Snowflake generator and "
    "lexer; statement lists, separators, comments, cursor class, nop patterns are symbolic choices over pools.",
    "assumptions": [
        "K7: sqlglot's parse/generate of whole statements is structure preserving for the statement skeletons used "
        "(literal and quoted-identifier rendering/lexing ARE checked)",
        "K1/K2 engine stub (validated against real DuckDB)",
    ],
}

L = tier(3, 4)
LLIT = tier(2, 3)  # any unicode text up to this length
LLEX = LLIT  # (a restricted 'lexer-significant' alphabet for longer texts was tried: the membership precondition costs more than it saves)
LIDENT = 2  # quoted identifiers of any unicode text up to this length (3 does not finish in 40 min)
BS = chr(92)
LEXCHARS = chr(39) + chr(34) + chr(92) + "$;-/*a \n"


def _lex_only(t: str) -> bool:
    for ch in t:
        found = False
        for c in LEXCHARS:
            if ch == c:
                found = True
        if not found:
            return False
    return True


def validate_contracts():
    return validate_engine()


@ob(
    "C16.rerendered_literal_round_trip",
    encodes=["fakesnow.conn.FakeSnowflakeConnection.execute_string (re-rendering step, real)", "sqlglot Generator of the dialect execute_string chooses (real)", "sqlglot Snowflake Tokenizer._scan_string (real)"],
    bounds="literal content t: any unicode string with |t| <= 2 (quick) / 3 (thorough; |t| = 3 alone takes ~17 min, |t| = 4 does not finish in 50 min); sharded by length",
    timeout=(400, 1800),
    shards=(3, 4),
)
def literal_round_trip(t: str) -> bool:
    """
    pre: len(t) <= LLIT and (SHARD < 0 or len(t) == SHARD)
    post: _
    """
    text = _rerendered_by_execute_string(t)
    if not text.startswith("SELECT "):
        return done(False)
    lit = text[7:]
    ok, tok, consumed, n = scan_string_literal(lit)
    return done(ok and consumed == len(lit) and tok == t)


def _rerendered_by_execute_string(t: str) -> str:
    """The text the real execute_string hands to execute() for the statement SELECT <literal t>.

    sqlglot.parse cannot run on symbolic text, so conn.py's parse is served a concrete one-statement AST whose literal
    leaf is the symbolic t (K7: the parser is structure preserving); the re-rendering and its dialect are the real code's."""
    import types

    from sqlglot import exp

    import fakesnow.conn as fconn

    ast = exp.Select(expressions=[exp.Literal.string(t)])
    seen = []

    class Rec:
        def execute(self, command, *a, **k):
            seen.append(command)
            return self

    conn = fconn.FakeSnowflakeConnection.__new__(fconn.FakeSnowflakeConnection)
    conn.cursor = lambda *a, **k: Rec()
    real_sqlglot = fconn.sqlglot
    fconn.sqlglot = types.SimpleNamespace(parse=lambda *a, **k: [ast], parse_one=real_sqlglot.parse_one, exp=exp)
    try:
        list(conn.execute_string("select <symbolic literal>"))
    finally:
        fconn.sqlglot = real_sqlglot
    return seen[0] if len(seen) == 1 else ""


def _real_literal(a: dict):
    from vf.real import real_conn

    t = a["t"]
    from sqlglot import exp

    fs, conn = real_conn()
    sql = "select " + exp.Literal.string(t).sql(dialect="snowflake") + " as v"
    try:
        direct = conn.cursor().execute(sql).fetchall()
        via = [c.fetchall() for c in conn.execute_string(sql + ";")]
    except Exception as e:  # noqa: BLE001
        return True, f"real stack raised {type(e).__name__}: {e}"
    return via != [direct] or direct != [(t,)], f"real stack: direct {direct!r} via execute_string {via!r}"


REGISTRY["C16.rerendered_literal_round_trip"].real_replay = _real_literal


@ob(
    "C16.rerendered_quoted_identifier_round_trip",
    encodes=["sqlglot Snowflake Generator on a quoted Identifier (real)", "sqlglot Snowflake Tokenizer._scan_identifier (real)"],
    bounds="identifier text t without a backslash (known finding): any unicode string with 1 <= |t| <= 2 (both tiers; |t| = 3 does not finish in 40 min); sharded by length",
    timeout=(400, 1500),
    shards=(2, 2),
    carve="C16-quoted-identifier-backslash",
)
def identifier_round_trip(t: str) -> bool:
    """
    pre: 1 <= len(t) <= LIDENT and (SHARD < 0 or len(t) == SHARD + 1)
    pre: (len(t) < 1 or t[0] != BS) and (len(t) < 2 or t[1] != BS) and (len(t) < 3 or t[2] != BS) and (len(t) < 4 or t[3] != BS)
    post: _
    """
    from sqlglot import exp

    text = exp.Identifier(this=t, quoted=True).sql(dialect="snowflake")
    ok, tok, consumed, n = scan_quoted_identifier(text)
    return done(ok and consumed == len(text) and tok == t)


def _real_identifier(a: dict):
    from sqlglot import exp

    from vf.real import real_conn

    t = a["t"]
    fs, conn = real_conn()
    sql = "select 1 as " + exp.Identifier(this=t, quoted=True).sql(dialect="snowflake")
    try:
        direct = [d.name for d in conn.cursor().execute(sql).description]
        via = [d.name for d in list(conn.execute_string(sql))[0].description]
    except Exception as e:  # noqa: BLE001
        return True, f"real stack raised {type(e).__name__}: {e}"
    return direct != via, f"real stack: {sql!r}: column direct {direct!r} via execute_string {via!r}"


REGISTRY["C16.rerendered_quoted_identifier_round_trip"].real_replay = _real_identifier


# ------------------------------------------------------------------ statement-list structure
STMTS = [
    "create table ta (a int)",
    "insert into t1 (a, b) values (1, 'a;b')",
    "select 'x -- y' as c, '/* z */' as d from t1",
    "select * from nosuch",  # fails in the engine: unknown table
    "insert into t2 values (7)",
    "select $$ d;d $$ as e from t2",
    "select 'a\\\\b' as bs, 'l1\\nl2' as nl, 'q''q' as q from t1",
]
FAILING = 3
SEPS = [";", ";\n", "; -- c1; c2\n", ";;", " ; /* c; */ ", ";\n-- only a comment;\n", ";   \n\t"]
LEAD = ["", "-- lead; comment\n", "/* lead */ ", "\n  "]
TAIL = ["", ";", "; -- bye", ";\n/* end */"]


def _session():
    eng = std_engine()
    fs = instance(eng)
    conn = fs.connect(database="db1", schema="s1")
    return eng, conn


def _norm(sqls: list) -> list:
    """Engine calls compared modulo SQL comments (a comment next to a statement may or may not be carried along)."""
    import sqlglot

    out = []
    for q in sqls:
        try:
            out.append(sqlglot.parse_one(q, read="duckdb").sql(dialect="duckdb", comments=False))
        except Exception:  # noqa: BLE001
            out.append(q)
    return out


def _one_by_one(stmts: list, cursor_class):
    eng, conn = _session()
    base = len(eng.log)
    results = []
    err = None
    for s in stmts:
        try:
            cur = conn.cursor(cursor_class)
            cur.execute(s)
            results.append((cur.fetchall(), cur.rowcount, type(cur).__name__, cur._use_dict_result))
        except Exception as e:  # noqa: BLE001
            err = (type(e).__name__, getattr(e, "errno", None), getattr(e, "sqlstate", None))
            break
    return _norm([sql for _, sql in eng.log[base:]]), results, err, eng.user_snapshot()


def _via_execute_string(text: str, cursor_class):
    eng, conn = _session()
    base = len(eng.log)
    results = []
    err = None
    try:
        cursors = conn.execute_string(text, cursor_class=cursor_class)
        for cur in cursors:
            results.append((cur.fetchall(), cur.rowcount, type(cur).__name__, cur._use_dict_result))
    except Exception as e:  # noqa: BLE001
        err = (type(e).__name__, getattr(e, "errno", None), getattr(e, "sqlstate", None))
    return _norm([sql for _, sql in eng.log[base:]]), results, err, eng.user_snapshot()


def _structure(k: int, i0: int, i1: int, i2: int, s0: int, s1: int, lead: int, tail: int, as_dict: bool) -> bool:
    stmts = [STMTS[i] for i in (i0, i1, i2)[:k]]
    seps = [SEPS[s0], SEPS[s1]]
    text = LEAD[lead]
    for j, s in enumerate(stmts):
        text += s
        if j < len(stmts) - 1:
            text += seps[j]
    text += TAIL[tail]
    cc = DictCursor if as_dict else None
    kw = DictCursor if as_dict else __import__("snowflake.connector.cursor", fromlist=["SnowflakeCursor"]).SnowflakeCursor
    log1, res1, err1, snap1 = _one_by_one(stmts, kw)
    log2, res2, err2, snap2 = _via_execute_string(text, kw)
    del cc
    if err1 != err2:
        return False
    if err1 is not None:
        # stops at the first failing statement with the earlier ones applied: same engine calls, same catalog
        return log1 == log2 and snap1 == snap2
    return log1 == log2 and res1 == res2 and snap1 == snap2 and len(res2) == len(stmts)


@ob(
    "C16.execute_string_equals_one_by_one",
    encodes=["fakesnow.conn.FakeSnowflakeConnection.execute_string", "fakesnow.cursor.FakeSnowflakeCursor.execute", "sqlglot.parse/generate (real, concrete text)"],
    bounds="0..2 (quick) / 0..3 (thorough) statements drawn by symbolic index from 7 skeletons (DDL, DML, queries with ; -- /* */ and $$ inside literals, one failing "
    "statement) x 7 separator/comment forms between them x (single statements only) 4 leading and 4 trailing forms x tuple/dict cursor class; compared with "
    "executing the same statements one by one on an identical fresh session: engine-call log, per-statement rows, rowcount, cursor "
    "class, error and final catalog",
    timeout=(400, 1200),
    stubs=["K1/K2 vf.duckstub.Engine"],
    shards=(8, 50),
)
def structure(k: int, i0: int, i1: int, i2: int, s0: int, s1: int, lead: int, tail: int, as_dict: bool) -> bool:
    """
    pre: 0 <= k <= 3 and 0 <= i0 < 7 and 0 <= i1 < 7 and 0 <= i2 < 7 and 0 <= s0 < 7 and 0 <= s1 < 7 and 0 <= lead < 4 and 0 <= tail < 4
    pre: (k >= 3 or i2 == 0) and (k >= 2 or (i1 == 0 and s0 == 0)) and (k >= 3 or s1 == 0) and (k >= 1 or i0 == 0)
    pre: SHARD < 0 or ((i0 == SHARD % 7 if SHARD < 7 else k == 0) if KMAX == 2 else (k == 0 if SHARD == 49 else (k >= 1 and i0 == SHARD % 7 and i1 == SHARD // 7)))
    pre: k <= KMAX and (k < 2 or (lead == 0 and tail == 0))
    post: _
    """
    P = fast.pick
    args = [P(k, 4), P(i0, 7), P(i1, 7), P(i2, 7), P(s0, 7), P(s1, 7), P(lead, 4), P(tail, 4), bool(P(as_dict, 2))]
    return done(fast.native(_structure, *args))


KMAX = tier(2, 3)


def _real_structure(a: dict):
    """Same comparison on the real stack (real DuckDB): rows of execute_string vs one-by-one."""
    from snowflake.connector.cursor import SnowflakeCursor

    from vf.real import real_conn

    stmts = [STMTS[i] for i in (a["i0"], a["i1"], a["i2"])[: a["k"]]]
    seps = [SEPS[a["s0"]], SEPS[a["s1"]]]
    text = LEAD[a["lead"]]
    for j, s in enumerate(stmts):
        text += s + (seps[j] if j < len(stmts) - 1 else "")
    text += TAIL[a["tail"]]
    cc = DictCursor if a["as_dict"] else SnowflakeCursor

    def prep():
        fs, conn = real_conn()
        cur = conn.cursor()
        cur.execute("create table t1 (a int, b varchar)")
        cur.execute("create table t2 (a int)")
        cur.execute("insert into t1 values (1, 'x'), (2, null)")
        cur.execute("insert into t2 values (5)")
        return conn

    def run(conn, one_by_one):
        out, err = [], None
        try:
            if one_by_one:
                for s in stmts:
                    out.append(conn.cursor(cc).execute(s).fetchall())
            else:
                out = [c.fetchall() for c in conn.execute_string(text, cursor_class=cc)]
        except Exception as e:  # noqa: BLE001
            err = type(e).__name__
        final = conn.cursor().execute("select table_name from information_schema.tables where table_schema = 'S1' order by 1").fetchall()
        return out, err, final

    r1 = run(prep(), True)
    r2 = run(prep(), False)
    if r1[1] is not None:
        same = r1[1] == r2[1] and r1[2] == r2[2]
    else:
        same = r1 == r2
    return (not same), f"real stack: one-by-one {r1!r} vs execute_string {r2!r} for {text!r}"


REGISTRY["C16.execute_string_equals_one_by_one"].real_replay = _real_structure

# ------------------------------------------------------------------ nop_regexes
PATTERNS = [r"^CALL\s", r"create\s+stage", r"alter session", r"select\s+1\s*$", r"insert into t2 values \(7\)"]
# (statement, bound parameters or None, indices of the patterns that match the parameter-substituted command at its start)
NOP_STMTS = [
    ("call sp_do(1)", None, {0}),
    ("CREATE   STAGE s url='x'", None, {1}),
    ("Alter Session set x = 1", None, {2}),
    ("select 1", None, {3}),
    ("select 'create stage s' as c from t1", None, set()),  # pattern text in the middle: not a match at the start
    ("insert into t2 values (1) -- alter session", None, set()),
    ("insert into t2 values (%s)", (7,), {4}),  # matches only once the parameter is substituted
    ("insert into t2 values (%s)", (8,), set()),
    ("select %s", (1,), {3}),
    ("create table stage1 (a int)", None, set()),
    # whitespace-sensitive text: not matching means executed from the text exactly as written
    ("select 'two  spaces\there' as c -- a line comment\n , a from t1", None, set()),
    ("select %s as c,\n\n  a from t1", ("x   y\n z",), set()),
]


def _nop(si: int, mask: int, as_dict: bool, prior: int = 0) -> bool:
    from snowflake.connector.cursor import SnowflakeCursor

    stmt, params, matching = NOP_STMTS[si]
    pats = [p for j, p in enumerate(PATTERNS) if mask & (1 << j)]
    eng = std_engine()
    fs = instance(eng, nop_regexes=pats or None)
    conn = fs.connect(database="db1", schema="s1")
    # statements executed earlier in the session (they rewrite to / share fakesnow's internal no-op statement)
    PRIOR = [[], ["comment on table t1 is 'first'", "alter table t1 set comment = 'second'"], ["set v9 = 1", "alter table t1 cluster by (a)"], ["alter table t1 set comment = 'first'", "comment on table t1 is 'second'"]]
    # process-level state left by ANY of the prefixes must be present in every path (and in the replay process)
    for pre in PRIOR:
        c0 = instance(std_engine()).connect(database="db1", schema="s1")
        for q in pre:
            c0.cursor().execute(q)
    for q in PRIOR[prior]:
        conn.cursor().execute(q)
    base, w0, snap0 = len(eng.log), len(eng.writes), eng.user_snapshot()
    cur = conn.cursor(DictCursor if as_dict else SnowflakeCursor)
    should_nop = any((mask & (1 << j)) for j in matching)
    try:
        cur.execute(stmt, params)
        out = (cur.fetchall(), cur.rowcount)
        err = None
    except Exception as e:  # noqa: BLE001
        out, err = None, type(e).__name__
    log = [sql for _, sql in eng.log[base:]]
    if should_nop:
        if err is not None or len(eng.writes) != w0 or eng.user_snapshot() != snap0:
            return False
        want = [{"STATUS": "Statement executed successfully."}] if as_dict else [("Statement executed successfully.",)]
        got_rows = [{k.upper(): v for k, v in r.items()} for r in out[0]] if as_dict else out[0]
        if got_rows != want:
            return False
        # only the success SELECT reached the engine
        return len(log) == 1 and "Statement executed successfully." in log[0]
    # no match: exactly as without the option
    eng2 = std_engine()
    conn2 = instance(eng2).connect(database="db1", schema="s1")
    for q in PRIOR[prior]:
        conn2.cursor().execute(q)
    base2 = len(eng2.log)
    cur2 = conn2.cursor(DictCursor if as_dict else SnowflakeCursor)
    try:
        cur2.execute(stmt, params)
        out2, err2 = (cur2.fetchall(), cur2.rowcount), None
    except Exception as e:  # noqa: BLE001
        out2, err2 = None, type(e).__name__
    return log == [sql for _, sql in eng2.log[base2:]] and out == out2 and err == err2 and eng.user_snapshot() == eng2.user_snapshot()


@ob(
    "C16.nop_regexes_only_noop_matches",
    encodes=["fakesnow.cursor.FakeSnowflakeCursor.execute (nop_regexes short-circuit)", "fakesnow.instance.FakeSnow.connect (option plumbing)"],
    bounds="every subset of 5 patterns (anchored, unanchored, with \\s, with $, reaching into a substituted parameter) x 12 statements "
    "(matching in a different letter case, matching only after parameter substitution, containing pattern text away from the start, "
    "not matching, not matching and whitespace-sensitive: runs of blanks, tabs and newlines in literals and bound values, a line comment before more SQL) x tuple/dict cursor x four session prefixes (fresh; COMMENT ON + ALTER SET COMMENT earlier, in both orders; SET + CLUSTER BY earlier)",
    timeout=(300, 600),
    stubs=["K1/K2 vf.duckstub.Engine (statements unknown to the engine such as CALL raise a parser/catalog error there)"],
    shards=(12, 12),
)
def nop_regexes(si: int, mask: int, as_dict: bool, prior: int) -> bool:
    """
    pre: 0 <= si < 12 and 0 <= mask < 32 and 0 <= prior <= 3 and (SHARD < 0 or si == SHARD)
    post: _
    """
    return done(fast.native(_nop, fast.pick(si, 12), fast.pick(mask, 32), bool(fast.pick(as_dict, 2)), fast.pick(prior, 4)))


# ------------------------------------------------------------------ pattern SETS: each pattern is matched on its own
PATTERNS2 = [r"(create)\s+stage", r"^(\w+)\s+x\s+\1\b", r"(?i)^put\s", r"^$", r"(call|exec)\s+(\w+)\s+\2"]
STMTS2 = [
    "call x call",  # matches pattern 1 (back-reference to ITS OWN first group)
    "exec me me",  # matches pattern 4 (its own second group)
    "exec me create",  # matches nothing
    "create stage s1",  # matches pattern 0
    "PUT file://x @s",  # matches pattern 2 (inline flag)
    "select a from t1",  # matches nothing - also not with an EMPTY pattern list
    "insert into t2 values (3)",
    "begin",
]


def _nop_sets(si: int, mask: int, empty_list: bool) -> bool:
    """Reference semantics of the option (README): a statement is no-op'd iff SOME pattern of the list, taken on its own, matches at its start
    (re.match, case-insensitive); an empty list and no list are the same: nothing is no-op'd."""
    import re as _re

    stmt = STMTS2[si]
    pats = [p for j, p in enumerate(PATTERNS2) if mask & (1 << j)]
    should_nop = any(_re.match(p, stmt, _re.IGNORECASE) for p in pats)
    eng = std_engine()
    try:
        fs = instance(eng, nop_regexes=pats if (pats or empty_list) else None)
        conn = fs.connect(database="db1", schema="s1")
    except Exception:  # noqa: BLE001
        return False  # every pattern is a valid regular expression on its own: connecting must not fail
    base, w0, snap0 = len(eng.log), len(eng.writes), eng.user_snapshot()
    cur = conn.cursor()
    try:
        cur.execute(stmt)
        out, err = (cur.fetchall(), cur.rowcount), None
    except Exception as e:  # noqa: BLE001
        out, err = None, type(e).__name__
    log = [sql for _, sql in eng.log[base:]]
    if should_nop:
        return err is None and len(eng.writes) == w0 and eng.user_snapshot() == snap0 and out[0] == [("Statement executed successfully.",)] and len(log) == 1
    eng2 = std_engine()
    conn2 = instance(eng2).connect(database="db1", schema="s1")
    base2 = len(eng2.log)
    cur2 = conn2.cursor()
    try:
        cur2.execute(stmt)
        out2, err2 = (cur2.fetchall(), cur2.rowcount), None
    except Exception as e:  # noqa: BLE001
        out2, err2 = None, type(e).__name__
    return log == [sql for _, sql in eng2.log[base2:]] and out == out2 and err == err2 and eng.user_snapshot() == eng2.user_snapshot()


@ob(
    "C16.each_pattern_is_matched_on_its_own",
    encodes=["fakesnow.cursor.FakeSnowflakeCursor.execute (nop_regexes short-circuit)", "fakesnow.conn.FakeSnowflakeConnection.__init__ (option kept per connection)"],
    bounds="every subset of 5 patterns that only work when taken one at a time (capturing groups with back-references to their own groups, an inline "
    "(?i) flag, the empty-string pattern '^$'), the EMPTY list and no list x 8 statements: no-op'd iff some single pattern matches at the start "
    "(reference: re.match per pattern, case-insensitive), otherwise identical to a session without the option",
    timeout=(200, 400),
    stubs=["K1/K2 vf.duckstub.Engine"],
)
def nop_sets(si: int, mask: int, empty_list: bool) -> bool:
    """
    pre: 0 <= si < len(STMTS2) and 0 <= mask < 32
    post: _
    """
    return done(fast.native(_nop_sets, fast.pick(si, len(STMTS2)), fast.pick(mask, 32), bool(fast.pick(empty_list, 2))))


def _real_nop_sets(a: dict):
    import re as _re

    from fakesnow.instance import FakeSnow

    stmt = STMTS2[a["si"]]
    pats = [p for j, p in enumerate(PATTERNS2) if a["mask"] & (1 << j)]
    should_nop = any(_re.match(p, stmt, _re.IGNORECASE) for p in pats)
    try:
        conn = FakeSnow(nop_regexes=pats if (pats or a["empty_list"]) else None).connect(database="db1", schema="s1")
    except Exception as e:  # noqa: BLE001
        return True, f"real stack: connect with nop_regexes={pats!r} raised {type(e).__name__}: {e}"
    cur = conn.cursor()
    cur.execute("create table t1 (a int)")
    cur.execute("create table t2 (a int)")
    try:
        rows, err = cur.execute(stmt).fetchall(), None
    except Exception as e:  # noqa: BLE001
        rows, err = None, f"{type(e).__name__}"
    nop = err is None and rows == [("Statement executed successfully.",)] and stmt not in ("begin",)
    if stmt == "begin":
        return None, "BEGIN answers with the same status row whether or not it is no-op'd"
    return nop != should_nop, f"real stack: {stmt!r} with patterns {pats!r}: rows {rows} error {err}; should be no-op'd: {should_nop}"


REGISTRY["C16.each_pattern_is_matched_on_its_own"].real_replay = _real_nop_sets


# ------------------------------------------------------------------ independence of what happened before (shared harness)
import obligations.shared_independence as _indep  # noqa: E402

_IND_PRIORS = (4, 5)


@ob(
    "C16.noop_statements_leave_nothing_behind",
    encodes=["fakesnow.cursor.FakeSnowflakeCursor.execute/_transform/_execute/description/fetch*", "fakesnow.conn / fakesnow.variables / fakesnow.transforms (any state kept between statements)"],
    bounds="prior activity: a nop_regexes match or tag / cluster-by no-ops; then one of " + str(len(_indep.SUBJECTS)) + " statements (queries, DML, DDL with metadata, COMMENT, "
    "DESCRIBE, SHOW, USE, SET, MERGE, seeded RANDOM, BEGIN, a nop_regexes match, two failing statements, TRUNCATE) on the same or another cursor, tuple or "
    "dict: SQL reaching the engine, rows, rowcount, description names, error, sqlstate, session context and the statement's own effect on catalog, "
    "metadata and variables equal those on a fresh identical session",
    timeout=(300, 600),
    stubs=["K1/K2/K6 vf.duckstub.Engine"],
    shards=(11, 11),
)
def independence(si: int, pk: int, as_dict: bool, same_cursor: bool) -> bool:
    """
    pre: 0 <= si < len(_indep.SUBJECTS) and 0 <= pk < len(_IND_PRIORS) and (SHARD < 0 or si % 11 == SHARD)
    post: _
    """
    from vf import fast as _f

    return done(_f.native(_indep.independent, _f.pick(si, len(_indep.SUBJECTS)), _IND_PRIORS[_f.pick(pk, len(_IND_PRIORS))], bool(_f.pick(as_dict, 2)), bool(_f.pick(same_cursor, 2))))
