#!/bin/bash
# usage: tools_runseed.sh <seed-dir under /verif/seeded> [tier] ; applies the patch to /repo, runs the property's check, undoes it
sd=$1; tier=${2:-quick}
prop=$(python3 -c "import json,sys; print(json.load(open('$sd/meta.json'))['property'])")
cd /repo && [ -z "$(git status --porcelain)" ] || { echo "REPO-DIRTY"; exit 4; }; git apply $sd/patch.diff || { echo "PATCH-FAILED $sd"; git checkout -q -- . ; exit 3; }
git -C /repo reset -q
# evidence and replays of a run on a SEEDED tree never go to /verif/evidence (that directory only ever describes the unchanged tree)
cd /verif && VF_OUT=/tmp/seedrun_out_$(basename $sd) ./run $prop $tier > /tmp/seedrun_$(basename $sd).log 2>&1; rc=$?
cd /repo && { git apply -R $sd/patch.diff 2>/dev/null || git checkout -q -- . ; }; [ -z "$(git status --porcelain)" ] || echo "REPO-LEFT-DIRTY after $sd"
echo "$(basename $sd) prop=$prop rc=$rc $(grep -E '^VIOLATION|^HARNESS-ERROR' /tmp/seedrun_$(basename $sd).log | head -2 | cut -c1-160)"
