"""A small backtracking regex matcher in plain Python (loops and comparisons only) so that CrossHair can
execute it on *symbolic* subject strings.  CrossHair's own regex model crashes on the look-around patterns
fakesnow.variables builds (TypeError in ord()), so the code under test gets this module in place of ``re``:

* subject concrete  -> the call is forwarded to the real ``re`` (native);
* subject symbolic  -> the pattern string the code built (always concrete here) is parsed with the stdlib's own
  ``re._parser`` and interpreted below, so a repaired / changed pattern is followed automatically.

Supported: literals, ``.``, categories \\w \\d \\s (and negations), sets, greedy ``* + ? {m,n}``, groups, alternation,
look-ahead / look-behind (positive and negative), ``^ $``, flag IGNORECASE.  Anything else raises Unsupported
(the obligation becomes inconclusive).  Validated against ``re`` on concrete samples by validate_rematch().
"""
from __future__ import annotations

import re as _re

from crosshair.tracers import NoTracing, is_tracing

try:  # py3.11+
    import re._constants as _c
    import re._parser as _p
except ImportError:  # pragma: no cover
    import sre_constants as _c
    import sre_parse as _p

IGNORECASE = _re.IGNORECASE
I = _re.I
MULTILINE = _re.MULTILINE
DOTALL = _re.DOTALL


class Unsupported(Exception):
    pass


def escape(s):
    return _re.escape(s)


def _is_concrete(s) -> bool:
    if is_tracing():
        with NoTracing():
            return type(s) is str
    return type(s) is str


def _word(ch) -> bool:
    return ch.isalnum() or ch == "_"


def _cat(cat, ch) -> bool:
    if cat == _c.CATEGORY_WORD:
        return _word(ch)
    if cat == _c.CATEGORY_NOT_WORD:
        return not _word(ch)
    if cat == _c.CATEGORY_DIGIT:
        return ch.isdigit()
    if cat == _c.CATEGORY_NOT_DIGIT:
        return not ch.isdigit()
    if cat == _c.CATEGORY_SPACE:
        return ch.isspace()
    if cat == _c.CATEGORY_NOT_SPACE:
        return not ch.isspace()
    raise Unsupported(f"category {cat}")


def _lit_eq(code: int, ch, icase: bool) -> bool:
    lit = chr(code)
    if ch == lit:
        return True
    if icase:
        lo, up = lit.lower(), lit.upper()
        return ch == lo or ch == up
    return False


def _in_set(items, ch, icase: bool) -> bool:
    neg = False
    hit = False
    for op, av in items:
        if op == _c.NEGATE:
            neg = True
        elif op == _c.LITERAL:
            if _lit_eq(av, ch, icase):
                hit = True
        elif op == _c.RANGE:
            lo, hi = av
            if chr(lo) <= ch <= chr(hi):
                hit = True
            elif icase and (chr(lo) <= ch.lower() <= chr(hi) or chr(lo) <= ch.upper() <= chr(hi)):
                hit = True
        elif op == _c.CATEGORY:
            if _cat(av, ch):
                hit = True
        else:
            raise Unsupported(f"set item {op}")
    return hit != neg


def _match_seq(items, idx: int, s, pos: int, icase: bool, groups: dict, k):
    """Match items[idx:] at pos; on success call continuation k(pos, groups) -> result or None."""
    if idx == len(items):
        return k(pos, groups)
    op, av = items[idx]
    n = len(s)

    def nxt(p, g):
        return _match_seq(items, idx + 1, s, p, icase, g, k)

    if op == _c.LITERAL:
        if pos < n and _lit_eq(av, s[pos], icase):
            return nxt(pos + 1, groups)
        return None
    if op == _c.NOT_LITERAL:
        if pos < n and not _lit_eq(av, s[pos], icase):
            return nxt(pos + 1, groups)
        return None
    if op == _c.ANY:
        if pos < n and s[pos] != "\n":
            return nxt(pos + 1, groups)
        return None
    if op == _c.IN:
        if pos < n and _in_set(av, s[pos], icase):
            return nxt(pos + 1, groups)
        return None
    if op == _c.AT:
        if av in (_c.AT_BEGINNING, _c.AT_BEGINNING_STRING):
            return nxt(pos, groups) if pos == 0 else None
        if av in (_c.AT_END_STRING,):
            return nxt(pos, groups) if pos == n else None
        if av == _c.AT_END:
            if pos == n or (pos == n - 1 and s[pos] == "\n"):
                return nxt(pos, groups)
            return None
        if av == _c.AT_BOUNDARY or av == _c.AT_NON_BOUNDARY:
            before = pos > 0 and _word(s[pos - 1])
            after = pos < n and _word(s[pos])
            at = before != after
            return nxt(pos, groups) if at == (av == _c.AT_BOUNDARY) else None
        raise Unsupported(f"AT {av}")
    if op == _c.SUBPATTERN:
        gid, add_flags, del_flags, sub = av
        ic = (icase or bool(add_flags & _re.IGNORECASE)) and not (del_flags & _re.IGNORECASE)
        start = pos

        def after_group(p, g):
            if gid is not None:
                g = dict(g)
                g[gid] = (start, p)
            return nxt(p, g)

        return _match_seq(list(sub), 0, s, pos, ic, groups, after_group)
    if op == _c.BRANCH:
        _, alts = av
        for alt in alts:
            r = _match_seq(list(alt), 0, s, pos, icase, groups, nxt)
            if r is not None:
                return r
        return None
    if op in (_c.ASSERT, _c.ASSERT_NOT):
        direction, sub = av
        sub = list(sub)
        if direction >= 0:
            found = _match_seq(sub, 0, s, pos, icase, groups, lambda p, g: True) is not None
        else:
            # look-behind: the sub-pattern must match some s[j:pos] exactly
            found = False
            for j in range(pos, -1, -1):
                if _match_seq(sub, 0, s, j, icase, groups, lambda p, g: True if p == pos else None) is not None:
                    found = True
                    break
        if found == (op == _c.ASSERT):
            return nxt(pos, groups)
        return None
    if op in (_c.MAX_REPEAT, _c.MIN_REPEAT):
        lo, hi, sub = av
        sub = list(sub)
        greedy = op == _c.MAX_REPEAT

        def rep(count, p, g):
            def more():
                if hi != _c.MAXREPEAT and count >= hi:
                    return None
                return _match_seq(sub, 0, s, p, icase, g, lambda p2, g2: rep(count + 1, p2, g2) if p2 > p else None)

            def stop():
                return nxt(p, g) if count >= lo else None

            first, second = (more, stop) if greedy else (stop, more)
            r = first()
            if r is not None:
                return r
            return second()

        return rep(0, pos, groups)
    raise Unsupported(f"regex op {op}")


class RMatch:
    def __init__(self, s, span, groups) -> None:
        self.string = s
        self._span = span
        self._groups = groups

    def group(self, i: int = 0):
        if i == 0:
            return self.string[self._span[0] : self._span[1]]
        a, b = self._groups[i]
        return self.string[a:b]

    def start(self):
        return self._span[0]

    def end(self):
        return self._span[1]

    def span(self):
        return self._span

    def __getitem__(self, i):
        return self.group(i)


def _parse(pattern: str, flags: int):
    tree = _p.parse(pattern, flags)
    icase = bool((flags | tree.state.flags) & _re.IGNORECASE)
    return list(tree), icase


def _match_at(items, icase, s, pos):
    return _match_seq(items, 0, s, pos, icase, {}, lambda p, g: (p, g))


def search(pattern, string, flags=0):
    if _is_concrete(string) and _is_concrete(pattern):
        return _re.search(pattern, string, flags)
    items, icase = _parse(pattern, int(flags))
    for start in range(len(string) + 1):
        r = _match_at(items, icase, string, start)
        if r is not None:
            return RMatch(string, (start, r[0]), r[1])
    return None


def match(pattern, string, flags=0):
    if _is_concrete(string) and _is_concrete(pattern):
        return _re.match(pattern, string, flags)
    items, icase = _parse(pattern, int(flags))
    r = _match_at(items, icase, string, 0)
    return None if r is None else RMatch(string, (0, r[0]), r[1])


def sub(pattern, repl, string, count=0, flags=0):
    if _is_concrete(string) and _is_concrete(pattern) and (callable(repl) or _is_concrete(repl)):
        return _re.sub(pattern, repl, string, count=count, flags=flags)
    items, icase = _parse(pattern, int(flags))
    out = ""
    pos = 0
    n = len(string)
    done = 0
    while pos <= n:
        r = _match_at(items, icase, string, pos) if (count == 0 or done < count) else None
        if r is not None:
            end = r[0]
            m = RMatch(string, (pos, end), r[1])
            if callable(repl):
                out += repl(m)
            else:
                out += _expand_template(repl, m)
            done += 1
            if end > pos:
                pos = end
                continue
            # empty match: copy one char and move on
            if pos < n:
                out += string[pos]
            pos += 1
        else:
            if pos < n:
                out += string[pos]
            pos += 1
    return out


def _expand_template(repl, m) -> str:
    """re.sub's treatment of a *string* replacement: backslash escapes and group references are processed."""
    if _is_concrete(repl):
        if "\\" not in repl:
            return repl
        # use the stdlib template parser on a pattern with the same number of groups is overkill: handle the common escapes
        out = ""
        i = 0
        while i < len(repl):
            ch = repl[i]
            if ch == "\\" and i + 1 < len(repl):
                nx = repl[i + 1]
                table = {"n": "\n", "t": "\t", "r": "\r", "a": "\a", "b": "\b", "f": "\f", "v": "\v", "\\": "\\"}
                if nx in table:
                    out += table[nx]
                    i += 2
                    continue
                if nx.isdigit():
                    out += m.group(int(nx))
                    i += 2
                    continue
                raise Unsupported("template escape")
            out += ch
            i += 1
        return out
    raise Unsupported("symbolic replacement template")


def validate_rematch() -> list:
    """Compare the interpreter with the real ``re`` on concrete samples (forced through the symbolic code path)."""
    pats = [
        (r"\$V1(?!\w)", _re.I),
        (r"\$V1", _re.I),
        (r"(?<!\$)\$\w+", 0),
        (r"\$AB_C(?!\w)", _re.I),
        (r"^CALL\s", _re.I),
        (r"create\s+stage", _re.I),
        (r"select\s+1\s*$", _re.I),
        (r"a|bc", 0),
        (r"[a-c]+x?", 0),
    ]
    subjects = ["", "$v1", "$V10", "x$v1", "$$v1", "$v1$v1", "a $V1,b", "$v1_", "$", "$ 5", "'$v1'", "call f", " call f", "CREATE   STAGE", "select 1 ", "abcx", "bc", "$ab_c.", "é$v1é"]
    ok, detail = True, ""
    for pat, fl in pats:
        items, icase = _parse(pat, fl)
        for s in subjects:
            want = _re.search(pat, s, fl)
            got = None
            for start in range(len(s) + 1):
                r = _match_at(items, icase, s, start)
                if r is not None:
                    got = (start, r[0])
                    break
            if (want.span() if want else None) != got:
                ok, detail = False, f"search {pat!r} on {s!r}: re {want and want.span()} vs interpreter {got}"
            # sub with a callable
            w2 = _re.sub(pat, lambda m: "<" + m.group() + ">", s, flags=fl)
            out, pos, n = "", 0, len(s)
            while pos <= n:
                r = _match_at(items, icase, s, pos)
                if r is not None and r[0] > pos:
                    out += "<" + s[pos : r[0]] + ">"
                    pos = r[0]
                    continue
                if pos < n:
                    out += s[pos]
                pos += 1
            if out != w2:
                ok, detail = False, f"sub {pat!r} on {s!r}: re {w2!r} vs interpreter {out!r}"
    return [("K10 reference regex interpreter == re on concrete samples (search and sub)", ok, detail)]
