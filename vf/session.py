"""Shared harness plumbing: a real FakeSnow instance / real connections running on the stub engine."""
from __future__ import annotations

import types

import fakesnow.instance as finstance
from vf.duckstub import Engine


def instance(eng: Engine, create_db: bool = True, create_sc: bool = True, db_path=None, nop_regexes=None):
    """A real fakesnow.instance.FakeSnow whose duckdb.connect() is served by the stub engine."""
    shim = types.SimpleNamespace(connect=lambda database=":memory:", **kw: eng.connect(), DuckDBPyConnection=object)
    orig = finstance.duckdb
    finstance.duckdb = shim
    try:
        return finstance.FakeSnow(
            create_database_on_connect=create_db,
            create_schema_on_connect=create_sc,
            db_path=db_path,
            nop_regexes=nop_regexes,
        )
    finally:
        finstance.duckdb = orig


def std_engine(tables: bool = True) -> Engine:
    """Catalog used by most harnesses: DB1{S1{T1,T2},S2{T1}}, DB2{S1{T1},S3{}}."""
    eng = Engine()
    for db, scs in (("DB1", ("S1", "S2")), ("DB2", ("S1", "S3"))):
        eng.add_db(db)
        for sc in scs:
            eng.add_schema(db, sc)
    if tables:
        eng.add_table("DB1", "S1", "T1", [("A", "BIGINT"), ("B", "VARCHAR")])
        eng.add_table("DB1", "S1", "T2", [("A", "BIGINT")])
        eng.add_table("DB1", "S2", "T1", [("A", "BIGINT")])
        eng.add_table("DB2", "S1", "T1", [("A", "BIGINT")])
    return eng
