"""Helpers for real-stack replays (real DuckDB, real pyarrow, public fakesnow API)."""
from __future__ import annotations

from snowflake.connector.cursor import DictCursor

from fakesnow.instance import FakeSnow


def real_conn(database: str | None = "DB1", schema: str | None = "S1", **fs_kwargs):
    fs = FakeSnow(**fs_kwargs)
    return fs, fs.connect(database=database, schema=schema)


def real_cursor(as_dict: bool = False, **kw):
    fs, conn = real_conn(**kw)
    return fs, conn, (conn.cursor(DictCursor) if as_dict else conn.cursor())
