"""A small z3 evaluator for scalar SQL expressions over nullable STRING and INT values (three-valued logic):
what the CASE / filter expressions of fakesnow's metadata views, DESCRIBE and SHOW queries use.
Unsupported nodes raise Unsupported (the obligation is then inconclusive)."""
from __future__ import annotations

import z3
from sqlglot import exp


class Unsupported(Exception):
    pass


class SV:
    """nullable value: kind 'str' | 'int' | 'bool' (bool values are three-valued predicates)"""

    __slots__ = ("kind", "null", "val")

    def __init__(self, kind, null, val):
        self.kind, self.null, self.val = kind, null, val


T, F = z3.BoolVal(True), z3.BoolVal(False)


def s_const(text: str) -> SV:
    return SV("str", F, z3.StringVal(text))


def i_const(n: int) -> SV:
    return SV("int", F, z3.IntVal(n))


NULL = SV("null", T, None)


def _coerce(a: SV, b: SV):
    """typed NULLs take the other side's kind; ints are rendered to strings when concatenated/compared with strings"""
    if a.kind == "null" and b.kind != "null":
        a = SV(b.kind, T, b.val)
    if b.kind == "null" and a.kind != "null":
        b = SV(a.kind, T, a.val)
    if a.kind == "null" and b.kind == "null":
        a = b = SV("int", T, z3.IntVal(0))
    return a, b


def to_str(a: SV) -> SV:
    if a.kind == "str":
        return a
    if a.kind == "int":
        return SV("str", a.null, z3.IntToStr(a.val))
    if a.kind == "null":
        return SV("str", T, z3.StringVal(""))
    raise Unsupported("bool to string")


def like_regex(pattern: str):
    parts = []
    lit = ""
    for ch in pattern:
        if ch in "%_":
            if lit:
                parts.append(z3.Re(lit))
                lit = ""
            parts.append(z3.Star(z3.AllChar(z3.ReSort(z3.StringSort()))) if ch == "%" else z3.AllChar(z3.ReSort(z3.StringSort())))
        else:
            lit += ch
    if lit:
        parts.append(z3.Re(lit))
    if not parts:
        return z3.Re("")
    return z3.Concat(*parts) if len(parts) > 1 else parts[0]


def p_and(a: SV, b: SV) -> SV:
    af, bf = z3.And(z3.Not(a.null), z3.Not(a.val)), z3.And(z3.Not(b.null), z3.Not(b.val))
    isf = z3.Or(af, bf)
    null = z3.And(z3.Not(isf), z3.Or(a.null, b.null))
    return SV("bool", null, z3.And(z3.Not(isf), z3.Not(null)))


def p_or(a: SV, b: SV) -> SV:
    ist = z3.Or(z3.And(z3.Not(a.null), a.val), z3.And(z3.Not(b.null), b.val))
    null = z3.And(z3.Not(ist), z3.Or(a.null, b.null))
    return SV("bool", null, ist)


def p_not(a: SV) -> SV:
    return SV("bool", a.null, z3.And(z3.Not(a.null), z3.Not(a.val)))


def is_true(a: SV):
    if a.kind != "bool":
        raise Unsupported("non-boolean condition")
    return z3.And(z3.Not(a.null), a.val)


def ev(e: exp.Expression, row: dict) -> SV:  # noqa: C901
    """row: column name (upper) -> SV ; qualified names are looked up by their last part"""
    if isinstance(e, (exp.Paren, exp.Alias)):
        return ev(e.this, row)
    if isinstance(e, exp.Cast):
        inner = ev(e.this, row)
        if e.to.this in (exp.DataType.Type.VARCHAR, exp.DataType.Type.TEXT):
            return to_str(inner) if inner.kind != "null" else SV("str", T, z3.StringVal(""))
        return inner
    if isinstance(e, exp.Column):
        name = e.name.upper()
        if name not in row:
            raise Unsupported(f"column {name}")
        return row[name]
    if isinstance(e, exp.Null):
        return NULL
    if isinstance(e, exp.Literal):
        return s_const(e.this) if e.is_string else i_const(int(e.this))
    if isinstance(e, exp.Boolean):
        return SV("bool", F, z3.BoolVal(bool(e.this)))
    if isinstance(e, (exp.EQ, exp.NEQ)):
        a, b = _coerce(ev(e.this, row), ev(e.expression, row))
        if a.kind != b.kind:
            a, b = to_str(a), to_str(b)
        null = z3.Or(a.null, b.null)
        eq = a.val == b.val
        return SV("bool", null, z3.And(z3.Not(null), eq if isinstance(e, exp.EQ) else z3.Not(eq)))
    if isinstance(e, exp.And):
        return p_and(ev(e.this, row), ev(e.expression, row))
    if isinstance(e, exp.Or):
        return p_or(ev(e.this, row), ev(e.expression, row))
    if isinstance(e, exp.Not):
        return p_not(ev(e.this, row))
    if isinstance(e, exp.Is):
        if not isinstance(e.expression, exp.Null):
            raise Unsupported("IS non-null")
        return SV("bool", F, ev(e.this, row).null)
    if isinstance(e, exp.In):
        a = ev(e.this, row)
        res = SV("bool", F, F)
        for it in e.expressions:
            b = ev(it, row)
            a2, b2 = _coerce(a, b)
            null = z3.Or(a2.null, b2.null)
            res = p_or(res, SV("bool", null, z3.And(z3.Not(null), a2.val == b2.val)))
        return res
    if isinstance(e, exp.Like):
        a = ev(e.this, row)
        pat = e.expression
        if not (isinstance(pat, exp.Literal) and pat.is_string):
            raise Unsupported("LIKE with a non-literal pattern")
        if a.kind != "str":
            raise Unsupported("LIKE on a non-string")
        return SV("bool", a.null, z3.And(z3.Not(a.null), z3.InRe(a.val, like_regex(pat.this))))
    if isinstance(e, exp.StartsWith) or (isinstance(e, exp.Anonymous) and str(e.this).lower() == "starts_with"):
        args = [e.this, e.expression] if isinstance(e, exp.StartsWith) else e.expressions
        a, b = ev(args[0], row), ev(args[1], row)
        null = z3.Or(a.null, b.null)
        return SV("bool", null, z3.And(z3.Not(null), z3.PrefixOf(b.val, a.val)))
    if isinstance(e, exp.DPipe):
        a, b = to_str(ev(e.this, row)), to_str(ev(e.expression, row))
        return SV("str", z3.Or(a.null, b.null), z3.Concat(a.val, b.val))
    if isinstance(e, exp.Coalesce):
        items = [ev(x, row) for x in [e.this, *e.expressions]]
        out = items[-1]
        for it in reversed(items[:-1]):
            it2, out2 = _coerce(it, out)
            if it2.kind != out2.kind:
                it2, out2 = to_str(it2), to_str(out2)
            out = SV(it2.kind, z3.And(it2.null, out2.null), z3.If(it2.null, out2.val, it2.val))
        return out
    if isinstance(e, exp.Case):
        if e.this is not None:
            raise Unsupported("simple CASE")
        out = ev(e.args["default"], row) if e.args.get("default") is not None else NULL
        for br in reversed(e.args["ifs"]):
            c = is_true(ev(br.this, row))
            t = ev(br.args["true"], row)
            t2, o2 = _coerce(t, out)
            if t2.kind != o2.kind:
                t2, o2 = to_str(t2), to_str(o2)
            out = SV(t2.kind, z3.If(c, t2.null, o2.null), z3.If(c, t2.val, o2.val))
        return out
    raise Unsupported(f"{type(e).__name__}: {e.sql()[:60]}")
