"""E2: operator-overloading shim for the pyarrow kernels fakesnow.arrow uses.

The *real* functions of fakesnow.arrow are called with these objects in place of pyarrow arrays (module globals
``pa`` / ``pc`` rebound by the harness).  Each supported kernel gets its element-wise semantics on ONE symbolic
element as a z3 term; a kernel the shim does not know raises Unsupported (obligation inconclusive).  Safe casts
become side conditions (real pyarrow raises ArrowInvalid when they fail), collected in ``Ctx.side``.

Validity: every element carries a z3 Bool ``valid``; element-wise kernels and casts propagate NULL (valid = conjunction of the
inputs' validity), ``pc.is_null`` / ``Array.is_null`` read it, ``StructArray.from_arrays(..., mask=m)`` makes the struct NULL where m is
true and VALID everywhere when no mask is given (children's NULLs do not make a struct NULL - as in real pyarrow).

Semantics encoded (pyarrow 'unchecked' arithmetic as used by the code: add/subtract/multiply wrap, divide truncates):
  floor/ceil/round_temporal(unit)      integer arithmetic on the epoch count
  subsecond(ts)                        binary64: fl((t mod unit_per_s) / unit_per_s)
  multiply/divide/add/subtract         int64 (two's complement wrap; trunc division) or binary64 (RNE)
  cast(int64|int32|float64)            safe cast: exact representability is a side condition
The shim is validated against real pyarrow on concrete inputs by validate_shim().
"""
from __future__ import annotations

import z3

RNE = z3.RNE()
F64 = z3.Float64()
UNITS = {"s": 1, "ms": 10**3, "us": 10**6, "ns": 10**9}
UNIT_NAMES = {"second": 1, "millisecond": 10**3, "microsecond": 10**6, "nanosecond": 10**9, "minute": None, "hour": None, "day": None}


class Unsupported(Exception):
    pass


class Ctx:
    side: list = []  # (description, z3 Bool that must hold for real pyarrow not to raise)
    defs: list = []  # definitional constraints (fresh bit-vector names for integer terms entering floating point)
    n = 0

    @classmethod
    def reset(cls) -> None:
        cls.side = []
        cls.defs = []
        cls.n = 0


def int_to_fp(term):
    """binary64 nearest to an integer term (RNE), through a fresh 64-bit vector so the solver stays in QF_BVFP + LIA."""
    Ctx.n += 1
    b = z3.BitVec(f"i2f_{Ctx.n}", 64)
    Ctx.defs.append(z3.BV2Int(b, is_signed=True) == term)
    return z3.fpSignedToFP(RNE, b, F64)


def fp_to_int(x):
    return z3.BV2Int(z3.fpToSBV(z3.RTZ(), x, z3.BitVecSort(64)), is_signed=True)


def fp_integral_in(x, lo: int, hi: int):
    return z3.And(
        z3.Not(z3.fpIsNaN(x)),
        z3.Not(z3.fpIsInf(x)),
        z3.fpEQ(z3.fpRoundToIntegral(z3.RTZ(), x), x),
        z3.fpGEQ(x, z3.FPVal(float(lo), F64)),
        z3.fpLEQ(x, z3.FPVal(float(hi), F64)),
    )


def wrap(x, bits: int):
    half = 2 ** (bits - 1)
    return ((x + half) % (2**bits)) - half


def trunc_div(a, b):
    # C-style division for b > 0 constant or term
    q = z3.If(a >= 0, a / b, -((-a) / b))
    return q


class TType:
    def __init__(self, kind: str, unit: str | None = None, tz=None, bits: int | None = None) -> None:
        self.kind, self.unit, self.tz, self.bits = kind, unit, tz, bits

    def __repr__(self) -> str:
        return f"TType({self.kind},{self.unit},{self.tz},{self.bits})"

    def __eq__(self, other) -> bool:
        return isinstance(other, TType) and (self.kind, self.unit, self.tz, self.bits) == (other.kind, other.unit, other.tz, other.bits)

    __hash__ = None


class TimestampType(TType):
    pass


class Time64Type(TType):
    pass


def int64():
    return TType("int", bits=64)


def int32():
    return TType("int", bits=32)


def float64():
    return TType("float", bits=64)


def timestamp(unit: str, tz=None):
    return TimestampType("timestamp", unit=unit, tz=tz, bits=64)


def time64(unit: str):
    return Time64Type("time", unit=unit, bits=64)


class Arr:
    """One symbolic element of a pyarrow array."""

    def __init__(self, term, type_: TType, n: int = 1, valid=None) -> None:
        self.term, self.type, self.n = term, type_, n
        self.valid = z3.BoolVal(True) if valid is None else valid

    def is_null(self, **kw):
        return Arr(z3.Not(self.valid), TType("bool"), self.n)

    def is_valid(self):
        return Arr(self.valid, TType("bool"), self.n)

    def __len__(self) -> int:
        return self.n

    def cast(self, target: TType, safe: bool = True):
        return cast(self, target, safe)

    def combine_chunks(self):
        return self


class ChunkedArray(Arr):
    pass


def _as_arr(x, like: Arr | None = None) -> Arr:
    if isinstance(x, Arr):
        return x
    if isinstance(x, bool):
        raise Unsupported("bool scalar")
    if isinstance(x, int):
        return Arr(z3.IntVal(x), int64())
    if isinstance(x, float):
        return Arr(z3.FPVal(x, F64), float64())
    raise Unsupported(f"scalar {type(x)}")


def cast(a: Arr, target: TType, safe: bool = True) -> Arr:
    src = a.type
    if target.kind == "int":
        lo, hi = -(2 ** (target.bits - 1)), 2 ** (target.bits - 1) - 1
        if src.kind in ("int", "timestamp", "time"):
            if safe and (src.bits or 64) > target.bits:
                Ctx.side.append((f"safe cast {src.kind}{src.bits}->int{target.bits} in range", z3.Implies(a.valid, z3.And(a.term >= lo, a.term <= hi))))
            return Arr(a.term if safe else wrap(a.term, target.bits), target, a.n, a.valid)
        if src.kind == "float":
            # safe float->int cast: the value must be integral and in range (pyarrow: "Float value ... was truncated")
            if safe:
                Ctx.side.append((f"safe cast double->int{target.bits} exact", z3.Implies(a.valid, fp_integral_in(a.term, lo, hi))))
            return Arr(fp_to_int(a.term), target, a.n, a.valid)
    if target.kind == "float":
        if src.kind in ("int", "timestamp", "time"):
            f = int_to_fp(a.term)
            if safe:
                Ctx.side.append(("safe cast int->double exact", z3.Implies(a.valid, fp_to_int(f) == a.term)))
            return Arr(f, target, a.n, a.valid)
        if src.kind == "float":
            return a
    raise Unsupported(f"cast {src} -> {target}")


def _binop(name: str, a, b) -> Arr:
    a, b = _as_arr(a), _as_arr(b)
    valid = z3.And(a.valid, b.valid)
    if a.type.kind == "float" or b.type.kind == "float":
        fa = a.term if a.type.kind == "float" else int_to_fp(a.term)
        fb = b.term if b.type.kind == "float" else int_to_fp(b.term)
        t = {"add": z3.fpAdd, "subtract": z3.fpSub, "multiply": z3.fpMul, "divide": z3.fpDiv}[name](RNE, fa, fb)
        return Arr(t, float64(), max(a.n, b.n), valid)
    if a.type.kind in ("timestamp", "time") or b.type.kind in ("timestamp", "time"):
        if name != "subtract":
            raise Unsupported(f"{name} on temporal values")
    bits = 64
    if name == "add":
        t = wrap(a.term + b.term, bits)
    elif name == "subtract":
        t = wrap(a.term - b.term, bits)
    elif name == "multiply":
        t = wrap(a.term * b.term, bits)
    else:
        Ctx.side.append(("integer divide: divisor non-zero", z3.Implies(valid, b.term != 0)))
        t = z3.If(b.term > 0, trunc_div(a.term, b.term), -trunc_div(a.term, -b.term))
    return Arr(t, int64(), max(a.n, b.n), valid)


class _PC:
    @staticmethod
    def is_null(a, **kw):
        return _as_arr(a).is_null()

    @staticmethod
    def is_valid(a):
        return _as_arr(a).is_valid()

    @staticmethod
    def invert(a):
        a = _as_arr(a)
        if a.type.kind != "bool":
            raise Unsupported("invert of a non-boolean")
        return Arr(z3.Not(a.term), a.type, a.n, a.valid)

    @staticmethod
    def add(a, b):
        return _binop("add", a, b)

    @staticmethod
    def subtract(a, b):
        return _binop("subtract", a, b)

    @staticmethod
    def multiply(a, b):
        return _binop("multiply", a, b)

    @staticmethod
    def divide(a, b):
        return _binop("divide", a, b)

    @staticmethod
    def _temporal(a: Arr, unit: str, mode: str) -> Arr:
        if a.type.kind != "timestamp":
            raise Unsupported("temporal rounding of a non-timestamp")
        per_s = UNITS[a.type.unit]
        u = UNIT_NAMES.get(unit)
        if u is None:
            raise Unsupported(f"temporal unit {unit}")
        if u > per_s:
            return a  # rounding to a finer unit than the storage unit is the identity
        k = per_s // u  # storage ticks per rounding unit
        fl = (a.term / k) * k  # z3 Int division floors for a positive divisor
        if mode == "floor":
            t = fl
        elif mode == "ceil":
            t = z3.If(a.term == fl, fl, fl + k)
        else:  # round half up, as pyarrow's default RoundTemporalOptions
            t = z3.If((a.term - fl) * 2 >= k, fl + k, fl)
        return Arr(t, a.type, a.n, a.valid)

    @classmethod
    def floor_temporal(cls, a, multiple=1, unit="day", **kw):
        if multiple != 1:
            raise Unsupported("multiple")
        return cls._temporal(a, unit, "floor")

    @classmethod
    def ceil_temporal(cls, a, multiple=1, unit="day", **kw):
        if multiple != 1:
            raise Unsupported("multiple")
        return cls._temporal(a, unit, "ceil")

    @classmethod
    def round_temporal(cls, a, multiple=1, unit="day", **kw):
        if multiple != 1:
            raise Unsupported("multiple")
        return cls._temporal(a, unit, "round")

    @staticmethod
    def subsecond(a: Arr) -> Arr:
        if a.type.kind != "timestamp":
            raise Unsupported("subsecond of a non-timestamp")
        per_s = UNITS[a.type.unit]
        frac = a.term % per_s  # z3 mod is non-negative for a positive modulus: matches floor semantics
        f = z3.fpDiv(RNE, int_to_fp(frac), z3.FPVal(float(per_s), F64))
        return Arr(f, float64(), a.n, a.valid)

    def __getattr__(self, name):
        raise Unsupported(f"pyarrow.compute.{name}")


pc = _PC()


class Field:
    def __init__(self, name, type=None, nullable=True, metadata=None) -> None:  # noqa: A002
        self.name, self.type, self.nullable, self.metadata = name, type, nullable, metadata

    def with_type(self, t):
        return Field(self.name, t, self.nullable, self.metadata)

    def with_metadata(self, md):
        return Field(self.name, self.type, self.nullable, dict(md))


class Struct:
    def __init__(self, arrays, fields, valid=None) -> None:
        self.arrays, self.fields = list(arrays), list(fields)
        self.valid = z3.BoolVal(True) if valid is None else valid

    def child(self, name: str) -> Arr:
        for a, f in zip(self.arrays, self.fields):
            if f.name == name:
                return a
        raise KeyError(name)


class StructType(TType):
    def __init__(self, fields) -> None:
        super().__init__("struct")
        self.fields = list(fields)


class Schema:
    def __init__(self, fields) -> None:
        self.fields = list(fields)

    def __len__(self) -> int:
        return len(self.fields)

    def field(self, i):
        return self.fields[i]


class Table:
    def __init__(self, arrays, schema) -> None:
        self.columns, self.schema = list(arrays), schema

    @classmethod
    def from_arrays(cls, arrays, schema=None, names=None):
        return cls(arrays, schema)


class _StructArray:
    @staticmethod
    def from_arrays(arrays, fields=None, names=None, mask=None, memory_pool=None):
        valid = None
        if mask is not None:
            if not isinstance(mask, Arr) or mask.type.kind != "bool":
                raise Unsupported("StructArray mask that is not a boolean array")
            # pyarrow: mask must not contain nulls; True = the struct is NULL there
            Ctx.side.append(("StructArray mask has no nulls", mask.valid))
            valid = z3.Not(mask.term)
        return Struct(arrays, fields or [Field(n) for n in names], valid)


class _Types:
    @staticmethod
    def is_timestamp(t) -> bool:
        return isinstance(t, TType) and t.kind == "timestamp"

    @staticmethod
    def is_time(t) -> bool:
        return isinstance(t, TType) and t.kind == "time"


class _PA:
    ChunkedArray = ChunkedArray
    Array = Arr
    TimestampType = TimestampType
    Time64Type = Time64Type
    StructArray = _StructArray
    Table = Table
    Field = Field
    Schema = Schema
    types = _Types()
    int64 = staticmethod(int64)
    int32 = staticmethod(int32)
    float64 = staticmethod(float64)
    timestamp = staticmethod(timestamp)

    @staticmethod
    def field(name, type=None, nullable=True, metadata=None):  # noqa: A002
        return Field(name, type, nullable, metadata)

    @staticmethod
    def struct(fields):
        return StructType(fields)

    @staticmethod
    def schema(fields):
        return Schema(fields)

    @staticmethod
    def array(values, type=None):  # noqa: A002
        vals = list(values)
        if not vals or any(v != vals[0] for v in vals) or not isinstance(vals[0], int):
            raise Unsupported("pa.array of non-constant values")
        return Arr(z3.IntVal(vals[0]), type or int64(), len(vals))

    def __getattr__(self, name):
        raise Unsupported(f"pyarrow.{name}")


pa = _PA()


def eval_arr(a: Arr, model_values: dict):
    """Evaluate a shim term for concrete inputs (used by validate_shim)."""
    s = z3.Solver()
    for var, val in model_values.items():
        s.add(var == val)
    for d in Ctx.defs:
        s.add(d)
    assert s.check() == z3.sat
    m = s.model()
    v = m.eval(a.term, model_completion=True)
    if a.type.kind == "float":
        import struct as _st

        bits = z3.simplify(z3.fpToIEEEBV(v)).as_long()
        return _st.unpack(">d", _st.pack(">Q", bits))[0]
    return v.as_long()


def validate_shim() -> list:
    """The shim's kernels agree with real pyarrow on concrete inputs (incl. the input of tests/test_arrow.py)."""
    import pyarrow as rpa
    import pyarrow.compute as rpc

    t = z3.Int("t")
    ok, detail = True, ""
    samples = [0, 1, 65, 999_999, 1_000_000, 1_365_123_723_123_456, -1, -1_000_001, -57_951_272_676_493_334, 253_402_300_799_999_999]
    for val in samples:
        Ctx.reset()
        real = rpa.array([val], type=rpa.timestamp("us"))
        sym = Arr(t, timestamp("us"))
        pairs = [
            (rpc.floor_temporal(real, unit="second").cast(rpa.int64())[0].as_py(), pc.floor_temporal(sym, unit="second").cast(int64())),
            (rpc.round_temporal(real, unit="second").cast(rpa.int64())[0].as_py(), pc.round_temporal(sym, unit="second").cast(int64())),
            (rpc.ceil_temporal(real, unit="second").cast(rpa.int64())[0].as_py(), pc.ceil_temporal(sym, unit="second").cast(int64())),
            (rpc.subsecond(real)[0].as_py(), pc.subsecond(sym)),
            (rpc.divide(rpc.floor_temporal(real, unit="second").cast(rpa.int64()), 1_000_000)[0].as_py(), pc.divide(pc.floor_temporal(sym, unit="second").cast(int64()), 1_000_000)),
            (rpc.multiply(real.cast(rpa.int64()), 1000)[0].as_py(), pc.multiply(sym.cast(int64()), 1000)),
            (rpc.divide(real.cast(rpa.int64()), 7)[0].as_py(), pc.divide(sym.cast(int64()), 7)),
            (rpc.multiply(rpc.subsecond(real), 1_000_000_000)[0].as_py(), pc.multiply(pc.subsecond(sym), 1_000_000_000)),
        ]
        for want, got in pairs:
            g = eval_arr(got, {t: val})
            if isinstance(want, float):
                same = abs(want - g) == 0.0
            else:
                same = want == g
            if not same:
                ok, detail = False, f"t={val}: pyarrow {want!r} vs shim {g!r}"
    # safe float->int32 cast: raises exactly when the shim's side condition fails
    for fval in (65000.0, 64999.99999999999, 5.0e9, 123.0):
        Ctx.reset()
        cast(Arr(z3.FPVal(fval, F64), float64()), int32())
        cond = Ctx.side[-1][1]
        s = z3.Solver()
        s.add(cond)
        for d in Ctx.defs:
            s.add(d)
        holds = s.check() == z3.sat
        try:
            rpa.array([fval], type=rpa.float64()).cast(rpa.int32())
            raised = False
        except rpa.ArrowInvalid:
            raised = True
        if holds == raised:
            ok, detail = False, f"safe cast of {fval!r}: pyarrow raised={raised}, shim side condition holds={holds}"
    # NULL propagation and struct validity
    Ctx.reset()
    rnull = rpa.array([None], type=rpa.timestamp("us"))
    vflag = z3.Bool("v")
    snull = Arr(t, timestamp("us"), valid=vflag)
    null_pairs = [
        (rpc.floor_temporal(rnull, unit="second")[0].is_valid, pc.floor_temporal(snull, unit="second").valid),
        (rpc.divide(rnull.cast(rpa.int64()), 1_000_000)[0].is_valid, pc.divide(snull.cast(int64()), 1_000_000).valid),
        (rpc.multiply(rpc.subtract(rnull.cast(rpa.int64()), rnull.cast(rpa.int64())), 1000).cast(rpa.int32())[0].is_valid, pc.multiply(pc.subtract(snull.cast(int64()), snull.cast(int64())), 1000).cast(int32()).valid),
        (rpc.is_null(rnull)[0].as_py(), pc.is_null(snull).term),
        (rpa.StructArray.from_arrays([rnull.cast(rpa.int64())], names=["e"])[0].is_valid, _StructArray.from_arrays([snull.cast(int64())], names=["e"]).valid),
        (rpa.StructArray.from_arrays([rnull.cast(rpa.int64())], names=["e"], mask=rpc.is_null(rnull))[0].is_valid, _StructArray.from_arrays([snull.cast(int64())], names=["e"], mask=pc.is_null(snull)).valid),
    ]
    for i, (want, got) in enumerate(null_pairs):
        g = z3.is_true(z3.simplify(z3.substitute(got, (vflag, z3.BoolVal(False)))))
        if bool(want) != g:
            ok, detail = False, f"NULL propagation case {i}: pyarrow {want!r} vs shim {g!r}"
    Ctx.reset()
    return [("K5 pyarrow kernel semantics (floor/round/ceil_temporal, subsecond, divide, multiply, safe casts, NULL propagation, struct validity with/without mask): shim == real pyarrow on samples", ok, detail)]
