"""Concolic fast paths.

CrossHair traces every opcode, so sqlglot's parser/generator and the 57 AST transforms cost ~0.6 s per
path even when nothing symbolic flows through them.  The wrappers installed here run those *real*
functions natively (``NoTracing``) whenever all of their inputs are concrete Python values, and fall
back to traced (symbolic) execution otherwise.  No behaviour is replaced: the same function object is
called with the same arguments; only the tracing of a fully concrete sub-computation is skipped.
"""
from __future__ import annotations

import enum

from crosshair.tracers import NoTracing, is_tracing
from sqlglot import exp

_CONCRETE = (str, int, bool, float, type(None), bytes)


def concrete(x) -> bool:
    """True if x is a real Python scalar (call under NoTracing, where type() does not lie)."""
    return type(x) in _CONCRETE or isinstance(x, enum.Enum)


def ast_concrete(e) -> bool:
    if not isinstance(e, exp.Expression):
        return concrete(e)
    stack = [e]
    while stack:
        node = stack.pop()
        for v in node.args.values():
            vs = v if type(v) is list else [v]
            for x in vs:
                if isinstance(x, exp.Expression):
                    stack.append(x)
                elif type(x) in (tuple, list):
                    for y in x:
                        if isinstance(y, exp.Expression):
                            stack.append(y)
                        elif type(y) in (tuple, list):
                            for z in y:
                                if not (isinstance(z, exp.Expression) or concrete(z)):
                                    return False
                        elif not concrete(y):
                            return False
                elif not concrete(x):
                    return False
    return True


def native_call(fn, *args, **kwargs):
    """Run fn natively if tracing and every positional arg is concrete (caller guarantees relevance)."""
    if is_tracing():
        with NoTracing():
            if all(concrete(a) for a in args) and all(concrete(v) for v in kwargs.values()):
                return fn(*args, **kwargs)
    return fn(*args, **kwargs)


def native(fn, *args, **kwargs):
    """Run fn natively (untraced).  Only for harness set-up whose inputs are concrete by construction."""
    if is_tracing():
        with NoTracing():
            return fn(*args, **kwargs)
    return fn(*args, **kwargs)


def pick(x, n: int) -> int:
    """Fork on a small symbolic int/bool (0 <= x < n) and return the plain Python int of this path."""
    for i in range(n):
        if x == i:
            return i
    raise AssertionError("pick: value outside range")


_installed = False


def install() -> None:
    global _installed
    if _installed:
        return
    _installed = True
    import fakesnow.conn as fconn
    import fakesnow.cursor as fc
    import sqlglot

    orig_parse_one = sqlglot.parse_one
    orig_parse = sqlglot.parse

    def parse_one(sql, *a, **k):
        if is_tracing():
            with NoTracing():
                if type(sql) is str and all(concrete(x) for x in a) and all(concrete(v) for v in k.values()):
                    return orig_parse_one(sql, *a, **k)
        return orig_parse_one(sql, *a, **k)

    def parse(sql, *a, **k):
        if is_tracing():
            with NoTracing():
                if type(sql) is str and all(concrete(x) for x in a) and all(concrete(v) for v in k.values()):
                    return orig_parse(sql, *a, **k)
        return orig_parse(sql, *a, **k)

    # rebind the names the fakesnow modules use (they hold their own references)
    for mod in (fc, fconn):
        if getattr(mod, "parse_one", None) is orig_parse_one:
            mod.parse_one = parse_one
    sqlglot.parse_one = parse_one
    sqlglot.parse = parse

    C = fc.FakeSnowflakeCursor

    def _conn_concrete(cur) -> bool:
        conn = getattr(cur, "_conn", None)
        if conn is None:
            return False
        dbp = getattr(conn, "db_path", None)
        if not (dbp is None or type(dbp).__module__.startswith("pathlib")):
            return False
        if not (concrete(getattr(conn, "database", None)) and concrete(getattr(conn, "schema", None))):
            return False
        vs = getattr(getattr(conn, "variables", None), "_variables", {})
        return type(vs) is dict and all(concrete(k) and concrete(v) for k, v in vs.items())

    # private helper names are looked up defensively: if a refactor renames them the fast path is
    # simply not installed (slower, never wrong)
    if hasattr(C, "_transform"):
        orig_t = C._transform

        def _transform(self, expression):
            if is_tracing():
                with NoTracing():
                    if ast_concrete(expression) and _conn_concrete(self):
                        return orig_t(self, expression)
            return orig_t(self, expression)

        C._transform = _transform

    if hasattr(C, "_transform_explode"):
        orig_te = C._transform_explode

        def _transform_explode(self, expression):
            if is_tracing():
                with NoTracing():
                    if ast_concrete(expression):
                        return orig_te(self, expression)
            return orig_te(self, expression)

        C._transform_explode = _transform_explode

    orig_sql = exp.Expression.sql

    def sql(self, *a, **k):
        if is_tracing():
            with NoTracing():
                if ast_concrete(self) and all(concrete(x) for x in a) and all(concrete(v) for v in k.values()):
                    return orig_sql(self, *a, **k)
        return orig_sql(self, *a, **k)

    exp.Expression.sql = sql
