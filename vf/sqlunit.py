"""Unit-level drivers for the real sqlglot routines the properties depend on (string-literal lexing/rendering).

sqlglot's tokenizer as a whole cannot be executed on symbolic text (one path per code point), so the real
``Tokenizer._scan_string`` / ``_scan_identifier`` are positioned directly on a literal, and the real
generators are run on a single Literal / Identifier node.
"""
from __future__ import annotations

from sqlglot import exp
from sqlglot.dialects.duckdb import DuckDB
from sqlglot.dialects.snowflake import Snowflake
from sqlglot.errors import TokenError
from sqlglot.tokens import TokenType


def scan_string_literal(text: str, dialect=Snowflake):
    """Run the dialect's real _scan_string on ``text`` (which starts with its opening quote).
    Returns (recognised, token_text, consumed_chars, n_tokens)."""
    tok = dialect().tokenizer
    tok.reset()
    tok.sql = text
    tok.size = len(text)
    tok._start = 0
    tok._advance(1)
    try:
        ok = tok._scan_string(text[0])
    except TokenError:
        return False, None, tok._current, len(tok.tokens)
    n = len(tok.tokens)
    if not ok or n != 1 or tok.tokens[0].token_type != TokenType.STRING:
        return False, None, tok._current, n
    return True, tok.tokens[0].text, tok._current, n


def scan_quoted_identifier(text: str, dialect=Snowflake):
    tok = dialect().tokenizer
    tok.reset()
    tok.sql = text
    tok.size = len(text)
    tok._start = 0
    tok._advance(1)
    try:
        tok._scan_identifier(tok._IDENTIFIERS[text[0]])
    except TokenError:
        return False, None, tok._current, len(tok.tokens)
    n = len(tok.tokens)
    if n != 1:
        return False, None, tok._current, n
    return True, tok.tokens[0].text, tok._current, n


def render_string(value: str, dialect: str) -> str:
    """The real generator's rendering of one string literal."""
    return exp.Literal.string(value).sql(dialect=dialect)


def duckdb_read_literal(lit: str):
    """DuckDB's rule for a plain single-quoted literal (K2-literal): '' is one quote, nothing else is special.
    Returns the value, or None if ``lit`` is not exactly one such literal."""
    if len(lit) < 2 or lit[0] != "'" or lit[-1] != "'":
        return None
    body = lit[1:-1]
    out = ""
    i = 0
    n = len(body)
    while i < n:
        ch = body[i]
        if ch == "'":
            if i + 1 < n and body[i + 1] == "'":
                out += "'"
                i += 2
                continue
            return None  # a lone quote would end the literal early
        out += ch
        i += 1
    return out


def validate_duckdb_literal_rule() -> list:
    import duckdb

    con = duckdb.connect(":memory:")
    ok, detail = True, ""
    for v in ["", "a", "'", "''", "a'b", "\\", "\\'", "\\n", "a\nb", "%s", "$x", "é ", 'say "hi"', "--", "/*", ";"]:
        lit = "'" + v.replace("'", "''") + "'"
        got = con.execute(f"select {lit}").fetchone()[0]
        if got != v or duckdb_read_literal(lit) != v:
            ok, detail = False, f"{v!r}: duckdb {got!r} model {duckdb_read_literal(lit)!r}"
    return [("K2-literal: DuckDB reads '' as one quote and nothing else specially (model == real DuckDB on samples)", ok, detail)]
