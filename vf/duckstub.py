"""K1-K4, K6: a plain-Python stand-in for DuckDB's catalog / session / transaction behaviour.

It *reads* the SQL fakesnow hands it with sqlglot's duckdb dialect (never by text matching), keeps a
catalog (databases -> schemas -> tables/views), a per-connection ``schema`` setting, a per-connection
transaction flag and a log of every call.  Table *contents* are not modelled: DML is recorded as a write
event and its affected-row count, like every query result, is whatever the harness configured (these may be
symbolic).  Anything it does not understand raises HarnessError (harness error, never a violation).

The behaviour it claims for DuckDB is validated against the real DuckDB by ``validate_engine()``.
"""
from __future__ import annotations

import logging

import duckdb
import sqlglot
from sqlglot import exp

from vf.fast import concrete, native
from vf.stubs import HarnessError, StubTable

logging.getLogger("sqlglot").setLevel(logging.ERROR)

_orig_parse = sqlglot.parse  # captured before vf.fast wraps it (either works)


def U(s):
    return s.upper() if isinstance(s, str) else s


class Tbl:
    def __init__(self, cols=None, kind="TABLE", owner=None):
        self.cols = list(cols or [])  # [(name, type)]
        self.kind = kind
        self.owner = owner  # id of the engine connection that created it (None: pre-existing)

    def key(self):
        return (self.kind, tuple(self.cols))


class Engine:
    """State shared by all connections of one FakeSnow instance."""

    def __init__(self) -> None:
        self.dbs = {"MEMORY": {"file": ":memory:", "schemas": {"MAIN": {}}}}
        self.log = []  # (conn_id, sql)
        self.writes = []  # (conn_id, kind, fq-name, in_tx)
        self.nconn = 0
        self.ncalls = 0
        self.query_result = None  # StubTable served for user queries
        self.dml_count = 1  # affected rows reported by DML (may be symbolic)
        self.hooks = []  # callables (stub, sql) run before every call: fault / crash / interference injection
        self.globals = {}
        self.macros = set()
        self.stubs = []  # every DuckDB connection (cursor()) ever opened on this engine
        self.disk = {}  # database files that exist on disk but are not attached: file -> schemas dict (ATTACH of such a file loads it)

    # -- catalog helpers -------------------------------------------------
    def add_db(self, name: str, file: str = ":memory:") -> None:
        self.dbs[U(name)] = {"file": file, "schemas": {"MAIN": {}}}

    def add_schema(self, db: str, schema: str) -> None:
        self.dbs[U(db)]["schemas"][U(schema)] = {}

    def add_table(self, db: str, schema: str, name: str, cols=None, kind="TABLE") -> None:
        self.dbs[U(db)]["schemas"][U(schema)][U(name)] = Tbl(cols or [("A", "BIGINT")], kind)

    def has_db(self, db) -> bool:
        return U(db) in self.dbs

    def has_schema(self, db, schema) -> bool:
        return U(db) in self.dbs and (U(schema) in self.dbs[U(db)]["schemas"] or U(schema) == "INFORMATION_SCHEMA")

    def snapshot(self):
        """Comparable picture of the whole committed catalog + write log (frame conditions)."""
        return (
            tuple(
                (d, v["file"], tuple((s, tuple((t, o.key()) for t, o in sorted(ts.items()))) for s, ts in sorted(v["schemas"].items())))
                for d, v in sorted(self.dbs.items())
            ),
            tuple(self.writes),
        )

    def user_snapshot(self):
        """As snapshot() but without fakesnow's own bootstrap objects (names starting with _FS_ and the
        views/macros it creates inside information_schema)."""
        return (
            tuple(
                (
                    d,
                    v["file"],
                    tuple(
                        (s, tuple((t, o.key()) for t, o in sorted(ts.items()) if not t.startswith("_FS_")))
                        for s, ts in sorted(v["schemas"].items())
                        if s != "INFORMATION_SCHEMA"
                    ),
                )
                for d, v in sorted(self.dbs.items())
            ),
            tuple(w for w in self.writes if "_FS_" not in w[2] and ".INFORMATION_SCHEMA." not in w[2]),
        )

    def connect(self) -> "DuckStub":
        return DuckStub(self)


class DuckStub:
    """One DuckDB connection (duckdb cursor()) on an Engine."""

    def __init__(self, engine: Engine) -> None:
        self.engine = engine
        self.id = engine.nconn
        engine.nconn += 1
        engine.stubs.append(self)
        self.setting = ("MEMORY", "MAIN")
        self.in_tx = False
        self.closed = False
        self.calls = []  # sql texts executed on THIS connection
        self.sources = []
        self.last_target = None
        self.last_described = None
        self.temp = {}  # this connection's temporary tables (K2: temp tables are per connection)
        self.read_objs = []  # every catalog object this connection's statements read or wrote (name, object)
        self._names = ["?"]
        self._rows = []
        self._table = None

    # -- DuckDBPyConnection surface used by fakesnow ----------------------
    def cursor(self) -> "DuckStub":
        c = DuckStub(self.engine)
        return c

    def close(self) -> None:
        self.closed = True

    def __enter__(self) -> "DuckStub":
        return self

    def __exit__(self, *exc) -> None:
        self.close()

    # DuckDBPyConnection.begin/commit/rollback (method forms of the statements; commit() without a transaction is a no-op)
    def begin(self):
        if self.closed:
            raise duckdb.ConnectionException("Connection Error: Connection already closed!")
        self.calls.append("BEGIN")
        self.engine.log.append((self.id, "BEGIN"))
        if self.in_tx:
            raise duckdb.TransactionException("TransactionContext Error: cannot start a transaction within a transaction")
        self.in_tx = True
        return self

    def commit(self):
        if self.closed:
            raise duckdb.ConnectionException("Connection Error: Connection already closed!")
        self.calls.append("COMMIT")
        self.engine.log.append((self.id, "COMMIT"))
        self.in_tx = False
        return self

    def rollback(self):
        if self.closed:
            raise duckdb.ConnectionException("Connection Error: Connection already closed!")
        self.calls.append("ROLLBACK")
        self.engine.log.append((self.id, "ROLLBACK"))
        if not self.in_tx:
            raise duckdb.TransactionException("TransactionContext Error: cannot rollback - no transaction is active")
        self.in_tx = False
        return self

    def fetchall(self):
        return list(self._rows)

    def fetchone(self):
        return self._rows[0] if len(self._rows) else None

    def fetch_arrow_table(self):
        if self._table is not None:
            return self._table
        return StubTable(self._names, self._rows)

    def execute(self, sql, params=None):
        if self.closed:
            raise duckdb.ConnectionException("Connection Error: Connection already closed!")
        eng = self.engine
        eng.ncalls += 1
        self.calls.append(sql)
        eng.log.append((self.id, sql))
        for h in list(eng.hooks):
            h(self, sql)
        if native(_is_plain_str, sql):
            native(self._execute_concrete, sql, params)
        else:
            self._execute_symbolic(sql)
        return self

    # -- symbolic SQL text: only the status rows fakesnow synthesises carry symbolic numbers -------------
    def _execute_symbolic(self, sql) -> None:
        # SELECT <int> as '<name>'[, 0 as '<name2>']   (string built from a symbolic count)
        if not sql.startswith("SELECT "):
            raise HarnessError("symbolic SQL the stub cannot read")
        body = sql[7:]
        i = body.find(" as '")
        if i < 0:
            raise HarnessError("symbolic SQL the stub cannot read")
        num = body[:i]
        rest = body[i + 5 :]
        j = rest.find("'")
        name1 = rest[:j]
        tail = rest[j + 1 :]
        names = [name1]
        row = [int(num)]
        if tail:
            if not tail.startswith(", "):
                raise HarnessError("symbolic SQL the stub cannot read")
            t2 = tail[2:]
            i2 = t2.find(" as '")
            names.append(t2[i2 + 5 : -1])
            row.append(int(t2[:i2]))
        self._set_result(names, [tuple(row)])

    def _set_result(self, names, rows, table=None) -> None:
        self._names = list(names)
        self._rows = list(rows)
        self._table = table

    # -- concrete SQL text ------------------------------------------------
    def _execute_concrete(self, sql: str, params) -> None:
        try:
            stmts = _orig_parse(sql, read="duckdb")
        except sqlglot.errors.ParseError as e:
            raise duckdb.ParserException(f"Parser Error: {e}") from None
        real = [st for st in stmts if st is not None]
        if len(real) == 1:
            # K1: a prepared statement must be given exactly as many values as it has placeholders
            need = len(list(real[0].find_all(exp.Placeholder))) + len(list(real[0].find_all(exp.Parameter)))
            given = len(params) if isinstance(params, (list, tuple)) else 0
            if need != given:
                raise duckdb.InvalidInputException(f"Invalid Input Error: Prepared statement needs {need} parameters, {given} given")
        for st in real:
            self._apply(st, sql)

    def _resolve(self, t: exp.Table, for_create: bool = False):
        """(catalog, schema, name) a table expression denotes under this connection's setting (K2)."""
        eng = self.engine
        name = U(t.name)
        cat, db = t.catalog, t.db
        if cat:
            c, s = U(cat), U(db)
        elif db:
            if eng.has_schema(self.setting[0], db):
                c, s = self.setting[0], U(db)
            elif eng.has_db(db):
                c, s = U(db), "MAIN"
            else:
                c, s = self.setting[0], U(db)
        else:
            c, s = self.setting
            # unqualified names are also looked up in the connection's temp schema (DuckDB search path)
            if not for_create and name in self.temp:
                return "TEMP", f"CONN{self.id}", name
        if not eng.has_db(c):
            raise duckdb.BinderException(f'Binder Error: Catalog "{c}" does not exist!')
        if not eng.has_schema(c, s):
            if for_create:
                raise duckdb.CatalogException(f"Catalog Error: Schema with name {s} does not exist!")
            raise duckdb.CatalogException(f"Catalog Error: Table with name {name} does not exist!\nDid you mean ...")
        return c, s, name

    def _lookup(self, t: exp.Table):
        c, s, n = self._resolve(t)
        if c == "TEMP":
            obj = self.temp[n]
            self.read_objs.append((n, obj))
            return c, s, n, obj
        if n.startswith("DUCKDB_"):
            return c, s, n, Tbl([], "VIEW")
        if s == "INFORMATION_SCHEMA":
            objs = self.engine.dbs[c]["schemas"].get(s, {})
            if n in objs:
                return c, s, n, objs[n]
            if n in ("TABLES", "COLUMNS", "SCHEMATA", "VIEWS", "DATABASES", "KEY_COLUMN_USAGE", "TABLE_CONSTRAINTS") or n.startswith("_FS_"):
                return c, s, n, Tbl([], "VIEW")
            raise duckdb.CatalogException(f"Catalog Error: Table with name {n} does not exist!\nDid you mean ...")
        objs = self.engine.dbs[c]["schemas"].get(s, {})
        if n not in objs:
            raise duckdb.CatalogException(f"Catalog Error: Table with name {n} does not exist!\nDid you mean ...")
        self.read_objs.append((n, objs[n]))
        return c, s, n, objs[n]

    def _check_sources(self, st: exp.Expression, skip=None) -> list:
        ctes = {U(c.alias) for c in st.find_all(exp.CTE)}
        out = []
        for t in st.find_all(exp.Table):
            if t is skip or not t.name:
                continue
            if not t.db and U(t.name) in ctes:
                continue
            if isinstance(t.this, exp.Func) or isinstance(t.this, exp.Anonymous):
                continue  # table functions
            if not t.db and U(t.name) == "DF":
                continue  # DuckDB replacement scan: a pandas DataFrame named df in the caller's frame (write_pandas)
            out.append(self._lookup(t)[:3])
        return out

    def _apply(self, st: exp.Expression, sql: str) -> None:  # noqa: C901
        eng = self.engine
        if isinstance(st, exp.Select) or isinstance(st, (exp.Union, exp.Values, exp.Subquery)):
            self._select(st)
        elif isinstance(st, (exp.Insert, exp.Update, exp.Delete, exp.TruncateTable)):
            tgt = st.expressions[0] if isinstance(st, exp.TruncateTable) else st.this
            if isinstance(tgt, exp.Schema):
                tgt = tgt.this
            if not isinstance(tgt, exp.Table):
                raise HarnessError(f"DML target {tgt!r}")
            c, s, n, _ = self._lookup(tgt)
            self.sources = self._check_sources(st, skip=tgt)
            kind = "TRUNCATE" if isinstance(st, exp.TruncateTable) else st.key.upper()
            eng.writes.append((self.id, kind, f"{c}.{s}.{n}", self.in_tx))
            self.last_target = (c, s, n)
            self._set_result(["Count"], [(eng.dml_count,)])
        elif isinstance(st, exp.Create):
            self._create(st)
        elif isinstance(st, exp.Drop):
            self._drop(st)
        elif isinstance(st, exp.Alter):
            tgt = st.this
            c, s, n, obj = self._lookup(tgt)
            for a in st.args.get("actions") or []:
                if isinstance(a, exp.RenameTable):
                    nc, ns, nn = self._resolve(a.this, for_create=True)
                    objs = eng.dbs[c]["schemas"][s]
                    if nn in objs:
                        raise duckdb.CatalogException(f'Catalog Error: Table with name "{nn}" already exists!')
                    objs[nn] = objs.pop(n)
                elif isinstance(a, exp.ColumnDef):
                    obj.cols.append((U(a.name), a.args["kind"].sql(dialect="duckdb") if a.args.get("kind") else "?"))
                elif isinstance(a, exp.Drop):
                    col = U(a.this.name)
                    obj.cols[:] = [cdef for cdef in obj.cols if cdef[0] != col]
                elif isinstance(a, exp.RenameColumn):
                    old, new = U(a.this.name), U(a.args["to"].name)
                    obj.cols[:] = [((new, ty) if cn == old else (cn, ty)) for cn, ty in obj.cols]
            self.last_target = (c, s, n)
            self._set_result(["Success"], [])
        elif isinstance(st, exp.Set):
            self._set(st)
        elif isinstance(st, exp.Command):
            self._command(st, sql)
        elif isinstance(st, exp.Transaction):
            if self.in_tx:
                raise duckdb.TransactionException("TransactionContext Error: cannot start a transaction within a transaction")
            self.in_tx = True
            self._set_result(["Success"], [])
        elif isinstance(st, exp.Commit):
            if not self.in_tx:
                raise duckdb.TransactionException("TransactionContext Error: cannot commit - no transaction is active")
            self.in_tx = False
            self._set_result(["Success"], [])
        elif isinstance(st, exp.Rollback):
            if not self.in_tx:
                raise duckdb.TransactionException("TransactionContext Error: cannot rollback - no transaction is active")
            self.in_tx = False
            self._set_result(["Success"], [])
        elif isinstance(st, exp.Describe):
            self._describe(st)
        elif isinstance(st, exp.Comment):
            self._set_result(["Success"], [])
        else:
            raise HarnessError(f"statement kind the engine stub does not model: {type(st).__name__}: {sql[:120]}")

    def _select(self, st: exp.Expression) -> None:
        eng = self.engine
        tables = [t for t in st.find_all(exp.Table) if t.name]
        if isinstance(st, exp.Select) and not tables and not st.args.get("from"):
            # literal select: the status rows fakesnow synthesises, setseed(...), etc.
            names, row = [], []
            for e in st.expressions:
                names.append(e.alias_or_name or e.sql(dialect="duckdb"))
                v = e.unalias()
                if isinstance(v, exp.Literal):
                    row.append(v.this if v.is_string else (int(v.this) if v.this.lstrip("-").isdigit() else float(v.this)))
                elif isinstance(v, exp.Neg) and isinstance(v.this, exp.Literal):
                    row.append(-int(v.this.this))
                else:
                    row.append(None)
            self._set_result(names, [tuple(row)])
            return
        if (
            isinstance(st, exp.Select)
            and len(tables) == 1
            and U(tables[0].name) == "SCHEMATA"
            and U(tables[0].db) == "INFORMATION_SCHEMA"
            and not tables[0].catalog
            and len(st.expressions) == 1
            and isinstance(st.expressions[0], exp.Star)
        ):
            cond = {}
            for eq in st.find_all(exp.EQ):
                l, r = eq.this, eq.expression
                if isinstance(l, exp.Upper) and isinstance(l.this, exp.Column) and isinstance(r, exp.Literal):
                    cond[U(l.this.name)] = ("upper", r.this)
                elif isinstance(l, exp.Column) and isinstance(r, exp.Literal):
                    cond[U(l.name)] = ("exact", r.this)
            rows = []
            for d, v in eng.dbs.items():
                for s in list(v["schemas"]) + ["INFORMATION_SCHEMA"]:
                    dn, sn = d.lower() if d == "MEMORY" else d, s.lower() if s in ("MAIN", "INFORMATION_SCHEMA") else s
                    ok = True
                    for col, (mode, val) in cond.items():
                        actual = dn if col == "CATALOG_NAME" else sn if col == "SCHEMA_NAME" else None
                        if actual is None:
                            raise HarnessError(f"schemata column {col}")
                        if (actual.upper() if mode == "upper" else actual) != val:
                            ok = False
                    if ok:
                        rows.append((dn, sn))
            self._set_result(["catalog_name", "schema_name"], rows)
            return
        self.sources = self._check_sources(st)
        tab = eng.query_result
        if tab is None:
            self._set_result(["C1"], [(1,)])
        else:
            self._set_result(tab.column_names, [], table=tab)

    def _create(self, st: exp.Create) -> None:
        eng = self.engine
        kind = U(st.args.get("kind"))
        exists_ok = bool(st.args.get("exists"))
        replace = bool(st.args.get("replace"))
        tgt = st.this.this if isinstance(st.this, exp.Schema) else st.this
        if kind == "SCHEMA":
            db, name = _schema_parts(tgt)
            db = db or self.setting[0]
            if not eng.has_db(db):
                raise duckdb.BinderException(f'Binder Error: Catalog "{db}" does not exist!')
            if eng.has_schema(db, name):
                if exists_ok:
                    self._set_result(["Success"], [])
                    return
                raise duckdb.CatalogException(f'Catalog Error: Schema with name "{name}" already exists!')
            eng.dbs[db]["schemas"][name] = {}
            self.last_target = (db, name, None)
        elif kind in ("TABLE", "VIEW"):
            if st.args.get("expression") is not None:
                self.sources = self._check_sources(st.args["expression"])
            c, s, n = self._resolve(tgt, for_create=True)
            props = st.args.get("properties")
            temp = bool(props and props.find(exp.TemporaryProperty))
            if temp:
                c, s = "TEMP", f"CONN{self.id}"
                objs = self.temp
            else:
                objs = eng.dbs[c]["schemas"].setdefault(s, {}) if s == "INFORMATION_SCHEMA" else eng.dbs[c]["schemas"][s]
            if n in objs:
                if exists_ok:
                    self._set_result(["Count"], [])
                    return
                if not replace:
                    what = "Table" if objs[n].kind == "TABLE" else "View"
                    raise duckdb.CatalogException(f'Catalog Error: {what} with name "{n}" already exists!')
            cols = []
            if isinstance(st.this, exp.Schema):
                for cd in st.this.expressions:
                    if isinstance(cd, exp.ColumnDef):
                        cols.append((U(cd.name), cd.args["kind"].sql(dialect="duckdb") if cd.args.get("kind") else "?"))
            objs[n] = Tbl(cols, kind, owner=self.id)
            self.last_target = (c, s, n)
            eng.writes.append((self.id, "CREATE " + kind, f"{c}.{s}.{n}", self.in_tx))
        else:
            raise HarnessError(f"CREATE {kind}")
        self._set_result(["Count"], [])

    def _drop(self, st: exp.Drop) -> None:
        eng = self.engine
        kind = U(st.args.get("kind"))
        exists_ok = bool(st.args.get("exists"))
        tgt = st.this
        if kind == "DATABASE":
            # DuckDB has no DROP DATABASE (fakesnow does not support it either: "TODO: support drop database")
            raise duckdb.ParserException('Parser Error: syntax error at or near "DATABASE"')
            name = U(tgt.name)
            if name not in eng.dbs:
                if exists_ok:
                    self._set_result(["Success"], [])
                    return
                raise duckdb.BinderException(f'Binder Error: Failed to detach database with name "{name}": database not found')
            del eng.dbs[name]
        elif kind == "SCHEMA":
            db, name = _schema_parts(tgt)
            db = db or self.setting[0]
            if not eng.has_db(db):
                raise duckdb.BinderException(f'Binder Error: Catalog "{db}" does not exist!')
            if name not in eng.dbs[db]["schemas"]:
                if exists_ok:
                    self._set_result(["Success"], [])
                    return
                raise duckdb.CatalogException(f"Catalog Error: Schema with name {name} does not exist!")
            if eng.dbs[db]["schemas"][name] and not st.args.get("cascade"):
                raise duckdb.DependencyException("Dependency Error: Cannot drop entry because there are entries that depend on it.")
            del eng.dbs[db]["schemas"][name]
        elif kind in ("TABLE", "VIEW"):
            try:
                c, s, n, obj = self._lookup(tgt)
            except duckdb.CatalogException:
                if exists_ok:
                    self._set_result(["Success"], [])
                    return
                raise
            if c == "TEMP":
                del self.temp[n]
                self._set_result(["Success"], [])
                return
            del eng.dbs[c]["schemas"][s][n]
            self.last_target = (c, s, n)
            eng.writes.append((self.id, "DROP " + kind, f"{c}.{s}.{n}", self.in_tx))
        else:
            raise HarnessError(f"DROP {kind}")
        self._set_result(["Success"], [])

    def _set(self, st: exp.Set) -> None:
        eng = self.engine
        for item in st.expressions:
            eq = item.this
            if not isinstance(eq, exp.EQ):
                raise HarnessError(f"SET item {item!r}")
            key = U(eq.this.name)
            val = eq.expression.this if isinstance(eq.expression, exp.Literal) else eq.expression.sql()
            if key == "SCHEMA":
                parts = val.split(".")
                if len(parts) == 2:
                    c, s = U(parts[0]), U(parts[1])
                else:
                    c, s = self.setting[0], U(parts[0])
                if len(parts) == 2 and not eng.has_db(c):
                    raise duckdb.BinderException(f'Binder Error: Catalog "{parts[0]}" does not exist!')
                if not eng.has_schema(c, s):
                    raise duckdb.CatalogException(f'Catalog Error: SET schema: No catalog + schema named "{val}" found.')
                self.setting = (c, s)
            else:
                eng.globals[key] = val
        self._set_result(["Success"], [])

    def _command(self, st: exp.Command, sql: str) -> None:
        eng = self.engine
        head = U(st.this)
        text = st.args.get("expression")
        text = text.this if isinstance(text, exp.Literal) else (text or "")
        if head == "ATTACH":
            toks = text.strip()
            if_not_exists = False
            if toks.upper().startswith("IF NOT EXISTS "):
                if_not_exists = True
                toks = toks[len("IF NOT EXISTS "):].strip()
            if toks.upper().startswith("DATABASE "):
                toks = toks[len("DATABASE "):].strip()
                if toks.upper().startswith("IF NOT EXISTS "):
                    if_not_exists = True
                    toks = toks[len("IF NOT EXISTS "):].strip()
            if not toks.startswith("'"):
                raise HarnessError(f"ATTACH text {text!r}")
            end = toks.index("'", 1)
            file = toks[1:end]
            rest = toks[end + 1 :].strip()
            if not rest.upper().startswith("AS "):
                raise HarnessError(f"ATTACH text {text!r}")
            name = rest[3:].strip().strip('"')
            if U(name) in eng.dbs:
                if if_not_exists:
                    self._set_result(["Success"], [])
                    return
                raise duckdb.BinderException(
                    f'Binder Error: Failed to attach database: database with name "{name}" already exists'
                )
            if file in eng.disk:
                # attaching an existing database file: its committed content (same objects) becomes visible
                eng.dbs[U(name)] = {"file": file, "schemas": eng.disk[file]}
            else:
                eng.dbs[U(name)] = {"file": file, "schemas": {"MAIN": {}}}
            self.attached = (U(name), file)
        elif head == "CREATE" and text.strip().upper().startswith("MACRO"):
            eng.macros.add(text.strip())
        elif head == "DETACH":
            name = U(text.strip().strip('"'))
            if name not in eng.dbs:
                raise duckdb.BinderException(f'Binder Error: Failed to detach database with name "{name}": database not found')
            del eng.dbs[name]
        else:
            raise HarnessError(f"command the engine stub does not model: {sql[:120]}")
        self._set_result(["Success"], [])

    def _describe(self, st: exp.Describe) -> None:
        inner = st.this
        if isinstance(inner, exp.Table):
            c, s, n, obj = self._lookup(inner)
            self.last_described = (c, s, n)
            rows = [(cn, ty, "YES", None, None, None) for cn, ty in obj.cols]
        elif isinstance(inner, (exp.Select, exp.Union, exp.Subquery, exp.Values)):
            if isinstance(inner, exp.Select) and not inner.args.get("from"):
                rows = []
                for e in inner.expressions:
                    v = e.unalias()
                    ty = "VARCHAR" if isinstance(v, exp.Literal) and v.is_string else "INTEGER"
                    rows.append((e.alias_or_name, ty, "YES", None, None, None))
            else:
                self._check_sources(inner)
                tab = self.engine.query_result
                names = tab.column_names if tab is not None else ["C1"]
                rows = [(nm, "BIGINT", "YES", None, None, None) for nm in names]
        else:
            # K6: DESCRIBE needs a query or a table; DuckDB reads anything else as a table name
            word = st.sql(dialect="duckdb").split()[1] if len(st.sql(dialect="duckdb").split()) > 1 else "?"
            raise duckdb.CatalogException(f"Catalog Error: Table with name {word} does not exist!\nDid you mean ...")
        self._set_result(["column_name", "column_type", "null", "key", "default", "extra"], rows)


def _schema_parts(tgt: exp.Table):
    """sqlglot parses the name in CREATE/DROP SCHEMA [db.]name into the db/catalog slots of a Table."""
    if tgt.args.get("this") is None:
        return U(tgt.catalog), U(tgt.db)
    return U(tgt.db), U(tgt.name)


def _is_plain_str(s) -> bool:
    return type(s) is str


def validate_engine() -> list:
    """K2-K4, K6: run the same statements on real DuckDB and on the stub; exception classes and the
    catalog answers fakesnow relies on must agree."""
    out = []
    real = duckdb.connect(":memory:")
    eng = Engine()
    stub = eng.connect()
    script = [
        "ATTACH DATABASE ':memory:' AS DB1",
        "ATTACH DATABASE ':memory:' AS DB1",  # already exists -> BinderException
        "ATTACH IF NOT EXISTS ':memory:' AS DB1",
        "CREATE SCHEMA DB1.S1",
        "CREATE SCHEMA DB1.S1",  # exists -> CatalogException
        "CREATE SCHEMA NODB.S1",  # BinderException
        "SET schema='DB1.S1'",
        "SET schema='DB1.NOPE'",  # CatalogException
        "SET schema='NODB.main'",  # CatalogException
        "CREATE TABLE T1 (A BIGINT)",
        "CREATE TABLE T1 (A BIGINT)",  # exists -> CatalogException
        "CREATE TABLE IF NOT EXISTS T1 (A BIGINT)",
        "CREATE TABLE DB1.NOPE.T1 (A BIGINT)",  # CatalogException
        "CREATE TABLE NODB.S1.T1 (A BIGINT)",  # BinderException
        "SELECT * FROM T1",
        "SELECT * FROM DB1.S1.T1",
        "SELECT * FROM S1.T1",
        "SELECT * FROM NOPE",  # CatalogException
        "SELECT * FROM DB1.S1.NOPE",  # CatalogException
        "SELECT * FROM NODB.S1.T1",  # BinderException
        "INSERT INTO T1 VALUES (1)",
        "INSERT INTO NOPE VALUES (1)",  # CatalogException
        "UPDATE T1 SET A = 2",
        "DELETE FROM T1",
        "DELETE FROM NOPE",
        "COMMIT",  # TransactionException, message checked below
        "ROLLBACK",
        "BEGIN",
        "INSERT INTO T1 VALUES (1)",
        "COMMIT",
        "BEGIN",
        "INSERT INTO T1 VALUES (1)",
        "ROLLBACK",
        "DESCRIBE SELECT 'x' AS \"status\"",
        "DESCRIBE T1",
        "DESCRIBE NOPE",  # CatalogException
        "DROP TABLE T1",
        "DROP TABLE T1",  # CatalogException
        "DROP TABLE IF EXISTS T1",
        "DROP SCHEMA DB1.S2 CASCADE",  # CatalogException
        "DROP SCHEMA IF EXISTS DB1.S2 CASCADE",
        "DROP DATABASE DB1",  # ParserException: DuckDB has no DROP DATABASE
    ]
    ok, detail = True, ""
    for sql in script:
        def run(c):
            try:
                c.execute(sql)
                return None, ""
            except Exception as e:  # noqa: BLE001
                return type(e).__name__, str(e)
        a, amsg = run(real)
        b, bmsg = run(stub)
        if a != b:
            ok, detail = False, f"{sql!r}: duckdb {a} ({amsg[:80]}) vs stub {b} ({bmsg[:80]})"
            break
        if a == "TransactionException":
            for frag in ("cannot commit - no transaction is active", "cannot rollback - no transaction is active"):
                if (frag in amsg) != (frag in bmsg):
                    ok, detail = False, f"{sql!r}: message {amsg!r} vs {bmsg!r}"
    out.append(("K2/K3/K4/K6 exception class per cause: engine stub == real DuckDB on the validation script", ok, detail))
    # existence queries as conn.__init__ issues them
    ok2, d2 = True, ""
    for db, sc in (("DB1", "S1"), ("DB1", "NOPE"), ("NODB", "S1"), ("DB1", "INFORMATION_SCHEMA"), ("DB1", "MAIN")):
        q = f"select * from information_schema.schemata where upper(catalog_name) = '{db}' and upper(schema_name) = '{sc}'"
        a = real.execute(q).fetchone() is not None
        b = stub.execute(q).fetchone() is not None
        if a != b:
            ok2, d2 = False, f"{q}: duckdb {a} stub {b}"
    q = "select * from information_schema.schemata where upper(catalog_name) = 'DB1'"
    if (real.execute(q).fetchone() is not None) != (stub.execute(q).fetchone() is not None):
        ok2, d2 = False, q
    out.append(("K2 information_schema.schemata existence answers: stub == real DuckDB", ok2, d2))
    # placeholder / parameter count
    ok3, d3 = True, ""
    for q, prm in (("select ?", (1,)), ("select ?", None), ("select 1", (1, 2)), ("describe select 'x' as status", (1,)), ("select ? + ?", (1,))):
        res = []
        for c in (real, stub):
            try:
                c.execute(q, prm)
                res.append(None)
            except Exception as e:  # noqa: BLE001
                res.append((type(e).__name__, str(e).split("\n")[0]))
        if res[0] != res[1]:
            ok3, d3 = False, f"{q} {prm}: duckdb {res[0]} stub {res[1]}"
    out.append(("K1 prepared-statement parameter count errors: stub == real DuckDB", ok3, d3))
    real.close()
    # closed connection
    try:
        real.execute("select 1")
        a = None
    except Exception as e:  # noqa: BLE001
        a = type(e).__name__
    stub.close()
    try:
        stub.execute("select 1")
        b = None
    except Exception as e:  # noqa: BLE001
        b = type(e).__name__
    out.append(("K4 closed connection raises ConnectionException", a == b == "ConnectionException", f"{a} vs {b}"))
    return out
