"""Worker: decide ONE obligation in this process and print one JSON line (prefixed ``@@RESULT ``).

usage: python -m vf.ch <module> <obligation-name> check|twin|concrete|realreplay [json-args]
"""
from __future__ import annotations

import ast
import collections
import importlib
import inspect
import json
import os
import sys
import time
import traceback


def _emit(d: dict) -> None:
    sys.stdout.write("@@RESULT " + json.dumps(d, default=repr) + "\n")
    sys.stdout.flush()


def parse_call_args(fn, message: str) -> dict | None:
    """Extract the concrete arguments from a CrossHair message '... when calling f(a, b) (which ...)'."""
    key = "when calling "
    if key not in message:
        return None
    s = message[message.index(key) + len(key):]
    for i, chr_ in enumerate(s):
        if chr_ != ")":
            continue
        cand = s[: i + 1]
        try:
            tree = ast.parse(cand, mode="eval")
        except SyntaxError:
            continue
        if not isinstance(tree.body, ast.Call):
            continue
        try:
            captured = eval(  # noqa: S307 - our own harness names only
                compile(tree, "<cex>", "eval"),
                {tree.body.func.id: (lambda *a, **k: (a, k)), "float": float, "__builtins__": __builtins__},
            )
        except Exception:
            continue
        a, k = captured
        try:
            bound = inspect.signature(fn).bind(*a, **k)
        except TypeError:
            return None
        bound.apply_defaults()
        return dict(bound.arguments)
    return None


def run_crosshair(o, timeout: float) -> dict:
    import z3
    from crosshair.core_and_libs import analyze_function, run_checkables
    from crosshair.options import AnalysisOptionSet
    from crosshair.statespace import MessageType

    solver_time = [0.0, 0]
    orig_check = z3.Solver.check

    def timed_check(self, *a, **k):
        t = time.perf_counter()
        try:
            return orig_check(self, *a, **k)
        finally:
            solver_time[0] += time.perf_counter() - t
            solver_time[1] += 1

    z3.Solver.check = timed_check

    stats: collections.Counter = collections.Counter()
    opts = AnalysisOptionSet(
        per_condition_timeout=timeout,
        per_path_timeout=max(20.0, timeout / 4),
        report_all=True,
        stats=stats,
        max_uninteresting_iterations=10**9,
    )
    t0 = time.time()
    msgs = run_checkables(analyze_function(o.fn, opts))
    wall = time.time() - t0
    out = {
        "paths": int(stats.get("num_paths", 0)),
        "solver_s": round(solver_time[0], 3),
        "solver_checks": solver_time[1],
        "wall_s": round(wall, 2),
    }
    if not msgs:
        out.update(verdict="inconclusive", message="no message from crosshair")
        return out
    # order of severity
    for m in msgs:
        if m.state in (MessageType.POST_FAIL, MessageType.EXEC_ERR, MessageType.POST_ERR):
            args = parse_call_args(o.fn, m.message)
            out.update(verdict="counterexample", message=m.message, args=args, state=m.state.name)
            return out
    for m in msgs:
        if m.state in (MessageType.SYNTAX_ERR, MessageType.IMPORT_ERR):
            out.update(verdict="harness-error", message=m.message, state=m.state.name)
            return out
    m = msgs[0]
    if m.state == MessageType.CONFIRMED:
        out.update(verdict="holds", message=m.message)
    else:
        out.update(verdict="inconclusive", message=m.message, state=m.state.name)
    return out


def run_concrete(o, args: dict) -> dict:
    """Re-run the harness natively on concrete arguments (first-level replay on the real code)."""
    from crosshair.condition_parser import Pep316Parser  # noqa: F401  (import check only)

    doc = inspect.getdoc(o.fn) or ""
    pre_srcs = [ln.split("pre:", 1)[1].strip() for ln in doc.splitlines() if ln.strip().startswith("pre:")]
    ns = dict(o.fn.__globals__)
    ns.update(args)
    for p in pre_srcs:
        try:
            if not eval(p, ns):  # noqa: S307
                return {"reproduced": False, "detail": f"precondition not met: {p}"}
        except Exception as e:  # noqa: BLE001
            return {"reproduced": False, "detail": f"precondition raised {e!r}"}
    try:
        r = o.fn(**args)
    except Exception as e:  # noqa: BLE001
        return {"reproduced": True, "detail": f"raised {type(e).__name__}: {e}", "trace": traceback.format_exc()[-1500:]}
    return {"reproduced": not r, "detail": f"returned {r!r}"}


def main() -> None:
    sys.path.insert(0, os.path.dirname(os.path.dirname(os.path.abspath(__file__))))
    modname, obname, mode = sys.argv[1:4]
    try:
        importlib.import_module(modname)
        from vf.registry import REGISTRY

        o = REGISTRY[obname]
        if mode in ("check", "twin"):
            if o.kind == "crosshair":
                res = run_crosshair(o, float(o.timeout))
                if mode == "twin":
                    # reachable iff the twin is violated
                    res["reachable"] = res["verdict"] == "counterexample"
            else:
                t0 = time.time()
                r = o.fn()
                res = {
                    "verdict": r.verdict,
                    "queries": r.queries,
                    "solver_s": round(r.solver_s, 3),
                    "message": r.detail,
                    "args": r.model,
                    "samples": r.samples,
                    "programs": r.programs,
                    "wall_s": round(time.time() - t0, 2),
                }
        elif mode == "concrete":
            args = json.loads(sys.argv[4])
            res = run_concrete(o, args) if o.kind == "crosshair" else {"reproduced": True, "detail": "smt obligation: see realreplay"}
        elif mode == "realreplay":
            args = json.loads(sys.argv[4])
            if o.real_replay is None:
                res = {"reproduced": None, "detail": "no real-stack replay registered"}
            else:
                ok, detail = o.real_replay(args)
                res = {"reproduced": None if ok is None else bool(ok), "detail": detail}
        else:
            raise SystemExit(f"unknown mode {mode}")
        _emit(res)
    except BaseException as e:  # noqa: BLE001
        if isinstance(e, SystemExit):
            raise
        _emit({"verdict": "harness-error", "message": f"{type(e).__name__}: {e}", "trace": traceback.format_exc()[-3000:]})


if __name__ == "__main__":
    main()
