"""E3 symsql: a bounded symbolic evaluator (z3) for the SQL subset that fakesnow itself emits.

Tables are fixed arrays of row slots (``present: Bool`` + one (is_null, Int value) pair per column), evaluation is
three-valued, and every statement maps a symbolic database state to a new symbolic state.  Anything outside the
subset raises Unsupported (the shape is reported inconclusive, never as a violation).

Subset: SELECT with inner / left / full outer joins, WHERE (may name select-list aliases, as DuckDB allows), scalar
expressions (+ - * comparison AND OR NOT IS [NOT] NULL IN CASE COALESCE CAST literals), aggregate-only selects with
COUNT_IF / COUNT / SUM, CREATE [OR REPLACE] [TEMP] TABLE AS SELECT, INSERT ... SELECT / VALUES, UPDATE ... [FROM], DELETE ...
[USING], rowid nullness.  Validated against real DuckDB on concrete tables by the obligations that use it.
"""
from __future__ import annotations

import z3
from sqlglot import exp


class Unsupported(Exception):
    pass


class V:
    """A nullable integer value."""

    __slots__ = ("null", "val")

    def __init__(self, null, val) -> None:
        self.null, self.val = null, val


class P:
    """A three-valued truth value: null (unknown) or val."""

    __slots__ = ("null", "val")

    def __init__(self, null, val) -> None:
        self.null, self.val = null, val

    def is_true(self):
        return z3.And(z3.Not(self.null), self.val)


TRUE, FALSE = z3.BoolVal(True), z3.BoolVal(False)
NULLV = V(TRUE, z3.IntVal(0))


def const(n: int) -> V:
    return V(FALSE, z3.IntVal(n))


class Row:
    def __init__(self, present, cols: dict, rowid_null=FALSE) -> None:
        self.present, self.cols, self.rowid_null = present, cols, rowid_null


class Table:
    def __init__(self, name: str, colnames: list, rows: list) -> None:
        self.name, self.colnames, self.rows = name, [c.upper() for c in colnames], rows

    def copy(self) -> "Table":
        return Table(self.name, list(self.colnames), [Row(r.present, dict(r.cols), r.rowid_null) for r in self.rows])


def symbolic_table(name: str, colnames: list, nrows: int, prefix: str | None = None) -> Table:
    pre = prefix or name
    rows = []
    for i in range(nrows):
        cols = {c.upper(): V(z3.Bool(f"{pre}_{i}_{c}_null"), z3.Int(f"{pre}_{i}_{c}")) for c in colnames}
        rows.append(Row(z3.Bool(f"{pre}_{i}_present"), cols))
    return Table(name, colnames, rows)


def concrete_table(name: str, colnames: list, data: list) -> Table:
    rows = [Row(TRUE, {c.upper(): (NULLV if v is None else const(v)) for c, v in zip(colnames, r)}) for r in data]
    return Table(name, colnames, rows)


class Env:
    def __init__(self, tables: dict) -> None:
        self.tables = {k.upper(): v for k, v in tables.items()}
        self.placeholders: dict = {}  # literal text -> z3 Int (symbolic constants written as reserved literals)
        self.last_result = None

    current = ("DB1", "S1")  # session context used to resolve partly qualified names

    def table(self, t: exp.Table) -> Table:
        """Tables are registered either under a bare name (one table of that name exists) or under DB.SCHEMA.NAME (same-named tables in
        several schemas); a reference resolves like the engine does: missing parts come from the session context."""
        name = t.name.upper()
        fq = f"{(t.catalog or self.current[0])}.{(t.db or self.current[1])}.{name}".upper()
        if fq in self.tables:
            return self.tables[fq]
        if name in self.tables:
            return self.tables[name]
        raise Unsupported(f"unknown table {fq}")


# ---------------------------------------------------------------------------------------------- expressions
def _bool_and(a: P, b: P) -> P:
    # 3VL AND: false if either false; null if (either null) and none false; else true
    af, bf = z3.And(z3.Not(a.null), z3.Not(a.val)), z3.And(z3.Not(b.null), z3.Not(b.val))
    isfalse = z3.Or(af, bf)
    null = z3.And(z3.Not(isfalse), z3.Or(a.null, b.null))
    return P(null, z3.And(z3.Not(isfalse), z3.Not(null)))


def _bool_or(a: P, b: P) -> P:
    at, bt = a.is_true(), b.is_true()
    istrue = z3.Or(at, bt)
    null = z3.And(z3.Not(istrue), z3.Or(a.null, b.null))
    return P(null, istrue)


def _bool_not(a: P) -> P:
    return P(a.null, z3.And(z3.Not(a.null), z3.Not(a.val)))


class Scope:
    def __init__(self, env: Env, bindings: dict, aliases: dict | None = None) -> None:
        self.env, self.bindings, self.aliases = env, bindings, aliases or {}

    def column(self, c: exp.Column):
        name = c.name.upper()
        tbl = c.table.upper() if c.table else None
        if name == "ROWID":
            if tbl is None or tbl not in self.bindings:
                raise Unsupported("rowid without a known table qualifier")
            row = self.bindings[tbl]
            return V(row.rowid_null, z3.IntVal(0))
        if tbl is not None:
            if tbl not in self.bindings:
                raise Unsupported(f"unknown qualifier {tbl}")
            row = self.bindings[tbl]
            if name not in row.cols:
                raise Unsupported(f"unknown column {tbl}.{name}")
            return row.cols[name]
        hits = [row.cols[name] for row in self.bindings.values() if name in row.cols]
        if len(hits) == 1:
            return hits[0]
        if not hits and name in self.aliases:
            return self.aliases[name]
        if not hits:
            raise Unsupported(f"unknown column {name}")
        raise Unsupported(f"ambiguous column {name}")


def as_pred(x) -> P:
    if isinstance(x, P):
        return x
    # integers as booleans are not used by the emitted SQL
    raise Unsupported("integer used as a predicate")


def as_val(x) -> V:
    if isinstance(x, V):
        return x
    raise Unsupported("predicate used as a value")


def ev(e: exp.Expression, sc: Scope):  # noqa: C901
    if isinstance(e, exp.Paren):
        return ev(e.this, sc)
    if isinstance(e, exp.Alias):
        return ev(e.this, sc)
    if isinstance(e, exp.Column):
        return sc.column(e)
    if isinstance(e, exp.Null):
        return NULLV
    if isinstance(e, exp.Boolean):
        return P(FALSE, z3.BoolVal(bool(e.this)))
    if isinstance(e, exp.Literal):
        if e.is_string:
            raise Unsupported("string literal")
        txt = e.this
        if txt in sc.env.placeholders:
            return V(FALSE, sc.env.placeholders[txt])
        return const(int(txt))
    if isinstance(e, exp.Neg):
        v = as_val(ev(e.this, sc))
        return V(v.null, -v.val)
    if isinstance(e, exp.Cast):
        return ev(e.this, sc)
    if isinstance(e, (exp.Add, exp.Sub, exp.Mul)):
        a, b = as_val(ev(e.this, sc)), as_val(ev(e.expression, sc))
        if isinstance(e, exp.Mul) and not (z3.is_int_value(a.val) or z3.is_int_value(b.val)):
            raise Unsupported("non-linear multiplication")
        val = a.val + b.val if isinstance(e, exp.Add) else a.val - b.val if isinstance(e, exp.Sub) else a.val * b.val
        return V(z3.Or(a.null, b.null), val)
    if isinstance(e, (exp.EQ, exp.NEQ, exp.GT, exp.GTE, exp.LT, exp.LTE)):
        a, b = as_val(ev(e.this, sc)), as_val(ev(e.expression, sc))
        op = {exp.EQ: lambda x, y: x == y, exp.NEQ: lambda x, y: x != y, exp.GT: lambda x, y: x > y, exp.GTE: lambda x, y: x >= y, exp.LT: lambda x, y: x < y, exp.LTE: lambda x, y: x <= y}[type(e)]
        null = z3.Or(a.null, b.null)
        return P(null, z3.And(z3.Not(null), op(a.val, b.val)))
    if isinstance(e, exp.NullSafeEQ):
        a, b = as_val(ev(e.this, sc)), as_val(ev(e.expression, sc))
        return P(FALSE, z3.Or(z3.And(a.null, b.null), z3.And(z3.Not(a.null), z3.Not(b.null), a.val == b.val)))
    if isinstance(e, exp.And):
        return _bool_and(as_pred(ev(e.this, sc)), as_pred(ev(e.expression, sc)))
    if isinstance(e, exp.Or):
        return _bool_or(as_pred(ev(e.this, sc)), as_pred(ev(e.expression, sc)))
    if isinstance(e, exp.Not):
        return _bool_not(as_pred(ev(e.this, sc)))
    if isinstance(e, exp.Is):
        if not isinstance(e.expression, exp.Null):
            raise Unsupported("IS <non-null>")
        x = ev(e.this, sc)
        return P(FALSE, x.null)
    if isinstance(e, exp.In):
        if e.args.get("query") is not None:
            raise Unsupported("IN (subquery)")
        a = as_val(ev(e.this, sc))
        res = P(FALSE, FALSE)
        for item in e.expressions:
            b = as_val(ev(item, sc))
            null = z3.Or(a.null, b.null)
            res = _bool_or(res, P(null, z3.And(z3.Not(null), a.val == b.val)))
        return res
    if isinstance(e, exp.Case):
        if e.this is not None:
            raise Unsupported("simple CASE")
        default = ev(e.args["default"], sc) if e.args.get("default") is not None else NULLV
        out = default
        for branch in reversed(e.args["ifs"]):
            cond = as_pred(ev(branch.this, sc)).is_true()
            then = ev(branch.args["true"], sc)
            if isinstance(then, P) != isinstance(out, P):
                if isinstance(out, V) and out is NULLV:
                    out = P(TRUE, FALSE)
                elif isinstance(then, V) and then is NULLV:
                    then = P(TRUE, FALSE)
                else:
                    raise Unsupported("CASE mixing values and predicates")
            cls = P if isinstance(then, P) else V
            out = cls(z3.If(cond, then.null, out.null), z3.If(cond, then.val, out.val))
        return out
    if isinstance(e, exp.Coalesce):
        items = [as_val(ev(x, sc)) for x in [e.this, *e.expressions]]
        out = items[-1]
        for it in reversed(items[:-1]):
            out = V(z3.And(it.null, out.null), z3.If(it.null, out.val, it.val))
        return out
    raise Unsupported(f"expression {type(e).__name__}: {e.sql()}")


# ---------------------------------------------------------------------------------------------- relations
def _source_rows(env: Env, src) -> tuple:
    """(alias, Table) of a FROM / JOIN item."""
    if isinstance(src, exp.Table):
        t = env.table(src)
        return (src.alias_or_name.upper(), t)
    if isinstance(src, exp.Subquery):
        sub = src.this
        if not isinstance(sub, exp.Select):
            raise Unsupported("subquery kind")
        t = run_select(env, sub)
        alias = src.alias.upper() if src.alias else "_SUBQ"
        return (alias, Table(alias, t.colnames, t.rows))
    raise Unsupported(f"FROM item {type(src).__name__}")


def _null_row(t: Table) -> Row:
    return Row(TRUE, {c: NULLV for c in t.colnames}, rowid_null=TRUE)


def _joined(env: Env, sel: exp.Select) -> list:
    """List of (present, bindings) for FROM ... JOIN ... of a select."""
    frm = sel.args.get("from")
    if frm is None:
        return [(TRUE, {})]
    alias, t = _source_rows(env, frm.this)
    combos = [(r.present, {alias: r}) for r in t.rows]
    for j in sel.args.get("joins") or []:
        ralias, rt = _source_rows(env, j.this)
        on = j.args.get("on")
        side = (j.side or "").upper()
        kind = (j.kind or "").upper()
        if j.args.get("using") is not None:
            raise Unsupported("JOIN USING")
        if kind == "CROSS" or (on is None and not side):
            on_fn = lambda b: TRUE  # noqa: E731
        else:
            on_fn = lambda b, on=on: as_pred(ev(on, Scope(env, b))).is_true()  # noqa: E731
        new = []
        matched_right = [FALSE for _ in rt.rows]
        for lp, lb in combos:
            any_match = FALSE
            for k, rr in enumerate(rt.rows):
                b = dict(lb)
                b[ralias] = rr
                m = z3.And(lp, rr.present, on_fn(b))
                new.append((m, b))
                any_match = z3.Or(any_match, m)
                matched_right[k] = z3.Or(matched_right[k], m)
            if side in ("LEFT", "FULL"):
                b = dict(lb)
                b[ralias] = _null_row(rt)
                new.append((z3.And(lp, z3.Not(any_match)), b))
        if side in ("RIGHT", "FULL"):
            left_aliases = {}
            for _lp, lb in combos[:1]:
                left_aliases = lb
            for k, rr in enumerate(rt.rows):
                b = {}
                for a, lrow in left_aliases.items():
                    b[a] = Row(TRUE, {c: NULLV for c in lrow.cols}, rowid_null=TRUE)
                if not left_aliases:
                    # empty left side: its aliases are still needed for name resolution
                    b[alias] = _null_row(t)
                b[ralias] = rr
                new.append((z3.And(rr.present, z3.Not(matched_right[k])), b))
        combos = new
    return combos


def run_select(env: Env, sel: exp.Select) -> Table:
    if sel.args.get("group") or sel.args.get("having") or sel.args.get("distinct") or sel.args.get("limit"):
        raise Unsupported("GROUP BY / HAVING / DISTINCT / LIMIT")
    combos = _joined(env, sel)
    where = sel.args.get("where")
    projections = sel.expressions
    agg = any(p.find(exp.AggFunc) or p.find(exp.CountIf) or (isinstance(p.unalias(), exp.Anonymous) and str(p.unalias().this).upper() == "COUNT_IF") for p in projections)
    names = []
    for i, p in enumerate(projections):
        if isinstance(p, exp.Star) or (isinstance(p, exp.Column) and isinstance(p.this, exp.Star)):
            names.append("*")
        else:
            names.append((p.alias_or_name or f"_COL{i}").upper())

    def row_scope(b):
        # select-list aliases may be used in WHERE (DuckDB): evaluate them lazily without WHERE
        al = {}
        sc0 = Scope(env, b)
        for p, n in zip(projections, names):
            if isinstance(p, exp.Alias):
                try:
                    al[n] = ev(p.this, sc0)
                except Unsupported:
                    pass
        return Scope(env, b, al)

    if agg:
        rows_present = []
        for pres, b in combos:
            sc = row_scope(b)
            keep = pres if where is None else z3.And(pres, as_pred(ev(where.this, sc)).is_true())
            rows_present.append((keep, sc))
        cols = {}
        for p, n in zip(projections, names):
            f = p.unalias()
            if isinstance(f, exp.CountIf) or (isinstance(f, exp.Anonymous) and str(f.this).upper() == "COUNT_IF"):
                arg = f.this if isinstance(f, exp.CountIf) else f.expressions[0]
                total = z3.Sum([z3.If(z3.And(k, as_pred(ev(arg, sc)).is_true()), 1, 0) for k, sc in rows_present] or [z3.IntVal(0)])
                # DuckDB: count_if is a SUM underneath, so it is NULL (not 0) over zero input rows
                cols[n] = V(z3.Not(z3.Or([k for k, _sc in rows_present])) if rows_present else TRUE, total)
            elif isinstance(f, exp.Count):
                if isinstance(f.this, exp.Star):
                    total = z3.Sum([z3.If(k, 1, 0) for k, sc in rows_present] or [z3.IntVal(0)])
                else:
                    total = z3.Sum([z3.If(z3.And(k, z3.Not(as_val(ev(f.this, sc)).null)), 1, 0) for k, sc in rows_present] or [z3.IntVal(0)])
                cols[n] = V(FALSE, total)
            else:
                raise Unsupported(f"aggregate {f.sql()}")
        return Table("_RESULT", list(cols), [Row(TRUE, cols)])
    out_rows = []
    colnames = None
    for pres, b in combos:
        sc = row_scope(b)
        keep = pres if where is None else z3.And(pres, as_pred(ev(where.this, sc)).is_true())
        cols = {}
        for p, n in zip(projections, names):
            if n == "*":
                for a, row in b.items():
                    for cn, cv in row.cols.items():
                        cols[cn] = cv
            else:
                cols[n] = as_val(ev(p, sc))
        colnames = list(cols)
        out_rows.append(Row(keep, cols))
    if colnames is None:
        colnames = [n for n in names if n != "*"]
    return Table("_RESULT", colnames, out_rows)


# ---------------------------------------------------------------------------------------------- statements
def execute(env: Env, st: exp.Expression) -> None:  # noqa: C901
    if isinstance(st, exp.Select):
        env.last_result = run_select(env, st)
        return
    if isinstance(st, exp.Create):
        if str(st.args.get("kind")).upper() != "TABLE" or not isinstance(st.args.get("expression"), exp.Select):
            raise Unsupported("CREATE other than TABLE AS SELECT")
        tgt = st.this.this if isinstance(st.this, exp.Schema) else st.this
        t = run_select(env, st.args["expression"])
        env.tables[tgt.name.upper()] = Table(tgt.name.upper(), t.colnames, t.rows)
        env.last_result = None
        return
    if isinstance(st, exp.Delete):
        tgt = st.this
        t = env.table(tgt)
        talias = tgt.alias_or_name.upper()
        using = st.args.get("using") or []
        if not isinstance(using, list):
            using = [using]
        where = st.args.get("where")
        srcs = [_source_rows(env, u) for u in using]
        new_rows = []
        count = z3.IntVal(0)
        for r in t.rows:
            hit = _exists_match(env, {talias: r}, srcs, where)
            dele = z3.And(r.present, hit)
            count = count + z3.If(dele, 1, 0)
            new_rows.append(Row(z3.And(r.present, z3.Not(hit)), r.cols, r.rowid_null))
        env.tables[t.name.upper()] = Table(t.name, t.colnames, new_rows)
        env.last_result = Table("_RESULT", ["COUNT"], [Row(TRUE, {"COUNT": V(FALSE, count)})])
        return
    if isinstance(st, exp.Update):
        tgt = st.this
        t = env.table(tgt)
        talias = tgt.alias_or_name.upper()
        frm = st.args.get("from")
        srcs = [_source_rows(env, frm.this)] if frm is not None else []
        where = st.args.get("where")
        new_rows = []
        count = z3.IntVal(0)
        for r in t.rows:
            matches = _matches(env, {talias: r}, srcs, where)
            hit = z3.Or([m for m, _b in matches]) if matches else FALSE
            cols = dict(r.cols)
            for setexp in st.expressions:
                cname = setexp.this.name.upper()
                if cname not in cols:
                    raise Unsupported(f"SET of unknown column {cname}")
                # first matching source row provides the value (DuckDB picks one; under the determinism precondition all agree)
                newv = cols[cname]
                for m, b in reversed(matches):
                    v = as_val(ev(setexp.expression, Scope(env, b)))
                    newv = V(z3.If(m, v.null, newv.null), z3.If(m, v.val, newv.val))
                cols[cname] = newv
            upd = z3.And(r.present, hit)
            count = count + z3.If(upd, 1, 0)
            new_rows.append(Row(r.present, cols, r.rowid_null))
        env.tables[t.name.upper()] = Table(t.name, t.colnames, new_rows)
        env.last_result = Table("_RESULT", ["COUNT"], [Row(TRUE, {"COUNT": V(FALSE, count)})])
        return
    if isinstance(st, exp.Insert):
        tgt = st.this
        if isinstance(tgt, exp.Schema):
            cols = [c.name.upper() for c in tgt.expressions]
            tgt = tgt.this
        else:
            cols = None
        t = env.table(tgt)
        cols = cols or list(t.colnames)
        src = st.expression
        new_rows = list(t.rows)
        count = z3.IntVal(0)
        if isinstance(src, exp.Select):
            res = run_select(env, src)
            if len(res.colnames) != len(cols):
                raise Unsupported("INSERT column count mismatch")
            for r in res.rows:
                vals = [r.cols[c] for c in res.colnames]
                rc = {c: NULLV for c in t.colnames}
                for c, v in zip(cols, vals):
                    rc[c] = v
                new_rows.append(Row(r.present, rc))
                count = count + z3.If(r.present, 1, 0)
        elif isinstance(src, exp.Values):
            for tup in src.expressions:
                rc = {c: NULLV for c in t.colnames}
                for c, item in zip(cols, tup.expressions):
                    rc[c] = as_val(ev(item, Scope(env, {})))
                new_rows.append(Row(TRUE, rc))
                count = count + 1
        else:
            raise Unsupported("INSERT source")
        env.tables[t.name.upper()] = Table(t.name, t.colnames, new_rows)
        env.last_result = Table("_RESULT", ["COUNT"], [Row(TRUE, {"COUNT": V(FALSE, count)})])
        return
    if isinstance(st, (exp.Transaction, exp.Commit, exp.Rollback)):
        return
    raise Unsupported(f"statement {type(st).__name__}")


def _matches(env: Env, base: dict, srcs: list, where) -> list:
    combos = [(TRUE, dict(base))]
    for alias, t in srcs:
        new = []
        for p, b in combos:
            for r in t.rows:
                b2 = dict(b)
                b2[alias] = r
                new.append((z3.And(p, r.present), b2))
        combos = new
    out = []
    for p, b in combos:
        cond = p if where is None else z3.And(p, as_pred(ev(where.this, Scope(env, b))).is_true())
        out.append((cond, b))
    return out


def _exists_match(env: Env, base: dict, srcs: list, where):
    ms = _matches(env, base, srcs, where)
    return z3.Or([m for m, _b in ms]) if ms else FALSE


# ---------------------------------------------------------------------------------------------- comparison helpers
def rows_equal(a: Row, b: Row, cols: list):
    return z3.And([z3.Or(z3.And(a.cols[c].null, b.cols[c].null), z3.And(z3.Not(a.cols[c].null), z3.Not(b.cols[c].null), a.cols[c].val == b.cols[c].val)) for c in cols])


def bag_equal(ta: Table, tb: Table):
    cols = ta.colnames
    if [c for c in tb.colnames] != cols:
        return FALSE
    conds = []
    for probe in ta.rows + tb.rows:
        ca = z3.Sum([z3.If(z3.And(r.present, rows_equal(r, probe, cols)), 1, 0) for r in ta.rows] or [z3.IntVal(0)])
        cb = z3.Sum([z3.If(z3.And(r.present, rows_equal(r, probe, cols)), 1, 0) for r in tb.rows] or [z3.IntVal(0)])
        conds.append(z3.Implies(probe.present, ca == cb))
    return z3.And(conds) if conds else TRUE


def model_table(model, t: Table) -> list:
    out = []
    for r in t.rows:
        if z3.is_true(model.eval(r.present, model_completion=True)):
            row = []
            for c in t.colnames:
                v = r.cols[c]
                row.append(None if z3.is_true(model.eval(v.null, model_completion=True)) else model.eval(v.val, model_completion=True).as_long())
            out.append(tuple(row))
    return out
