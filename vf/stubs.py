"""Plain-Python stand-ins (contracts K1, K5) whose answers may depend on symbolic state."""
from __future__ import annotations


class HarnessError(Exception):
    """Raised by a stub when the code under test asks for something the stub does not model.
    Reported as a harness error (exit 2), never as a violation."""


class StubColumn:
    def __init__(self, values: list) -> None:
        self._v = values

    def to_pylist(self) -> list:
        return list(self._v)

    def __len__(self) -> int:
        return len(self._v)


class StubTable:
    """K5: what fakesnow uses of pyarrow.Table.  Validated against real pyarrow by validate_stub_table()."""

    def __init__(self, names: list, rows: list) -> None:
        self.column_names = list(names)
        self._rows = list(rows)

    @property
    def num_rows(self) -> int:
        return len(self._rows)

    @property
    def num_columns(self) -> int:
        return len(self.column_names)

    def __len__(self) -> int:
        return len(self._rows)

    @property
    def columns(self) -> list:
        return [StubColumn([r[i] for r in self._rows]) for i in range(len(self.column_names))]

    def column(self, i: int) -> StubColumn:
        return self.columns[i]

    def slice(self, offset: int = 0, length=None) -> "StubTable":
        if offset < 0:
            raise IndexError("Offset must be non-negative")
        n = len(self._rows)
        start = offset if offset < n else n
        if length is None:
            end = n
        else:
            if length < 0:
                raise HarnessError("negative slice length is outside the K5 contract")
            end = start + length
            if end > n:
                end = n
        return StubTable(self.column_names, self._rows[start:end])

    def to_pylist(self) -> list:
        out = []
        for r in self._rows:
            d = {}
            for i, name in enumerate(self.column_names):
                d[name] = r[i]  # later duplicate names overwrite earlier ones, as in pyarrow
            out.append(d)
        return out

    def to_pandas(self):
        return ("pandas-frame", list(self.column_names), list(self._rows))

    def to_batches(self, max_chunksize=None) -> list:
        if not self._rows:
            return []
        step = max_chunksize or len(self._rows)
        return [StubTable(self.column_names, self._rows[i : i + step]) for i in range(0, len(self._rows), step)]


class StubTable1:
    """K5 for a one-column table whose cells are kept as ONE (possibly symbolic) list, so that slicing with
    symbolic offsets stays a solver term instead of forking per index value.  Same contract as StubTable."""

    def __init__(self, name, vals) -> None:
        self.column_names = [name]
        self._vals = vals

    @property
    def num_rows(self) -> int:
        return len(self._vals)

    num_columns = 1

    def __len__(self) -> int:
        return len(self._vals)

    @property
    def columns(self) -> list:
        return [StubColumn(self._vals)]

    def column(self, i: int) -> StubColumn:
        return self.columns[i]

    def slice(self, offset: int = 0, length=None) -> "StubTable1":
        if offset < 0:
            raise IndexError("Offset must be non-negative")
        if length is None:
            return StubTable1(self.column_names[0], self._vals[offset:])
        if length < 0:
            raise HarnessError("negative slice length is outside the K5 contract")
        return StubTable1(self.column_names[0], self._vals[offset : offset + length])

    def to_pylist(self) -> list:
        name = self.column_names[0]
        return [{name: v} for v in self._vals]

    def to_pandas(self):
        return ("pandas-frame", list(self.column_names), [(v,) for v in self._vals])


def validate_stub_table() -> list:
    """Concrete comparison of StubTable with real pyarrow on a grid (contract K5)."""
    import pyarrow as pa

    out = []
    ok = True
    detail = ""
    for names in (["A"], ["A", "B"], ["A", "A"], ["A", "B", "A"]):
        for n in range(0, 5):
            rows = [tuple(10 * r + c for c in range(len(names))) for r in range(n)]
            real = pa.Table.from_arrays([pa.array([r[c] for r in rows], type=pa.int64()) for c in range(len(names))], names=names)
            stub = StubTable(names, rows)
            for off in range(0, 7):
                for ln in (None, 0, 1, 2, 3, 6):
                    a = real.slice(offset=off, length=ln)
                    b = stub.slice(offset=off, length=ln)
                    if a.num_rows != b.num_rows or a.to_pylist() != b.to_pylist():
                        ok, detail = False, f"slice names={names} n={n} off={off} len={ln}: {a.to_pylist()} vs {b.to_pylist()}"
                    if [c.to_pylist() for c in a.columns] != [c.to_pylist() for c in b.columns]:
                        ok, detail = False, f"columns names={names} n={n} off={off} len={ln}"
            if bool(real) != bool(stub) or real.num_columns != stub.num_columns:
                ok, detail = False, f"truthiness/num_columns names={names} n={n}"
    for n in range(0, 5):
        vals = [7 * r for r in range(n)]
        real = pa.Table.from_arrays([pa.array(vals, type=pa.int64())], names=["A"])
        stub1 = StubTable1("A", vals)
        for off in range(0, 7):
            for ln in (None, 0, 1, 2, 3, 6):
                a = real.slice(offset=off, length=ln)
                b = stub1.slice(offset=off, length=ln)
                if a.num_rows != b.num_rows or a.to_pylist() != b.to_pylist() or a.columns[0].to_pylist() != b.columns[0].to_pylist():
                    ok, detail = False, f"StubTable1 slice n={n} off={off} len={ln}"
    out.append(("K5 StubTable == pyarrow.Table (slice clamps, to_pylist dict per row, columns, truthiness)", ok, detail))
    return out
