"""Obligation registry.

An *obligation* is one solver question.  Two kinds exist:

* kind="crosshair" (engine E1): a harness function with a PEP 316 contract
  (``pre:`` / ``post: _``) that drives real fakesnow functions with symbolic
  arguments.  The harness must end with ``return done(ok)``: in witness-twin
  mode ``done`` always answers False, so the twin is violated iff the end of
  the harness is reachable under the precondition (vacuity guard).
* kind="smt" (engines E2/E3): a plain function that builds z3 queries from the
  real code / the SQL the real code emits and returns a ``SmtResult``.

Bounds differ per tier; harness preconditions read them from ``B(<name>)``.
"""
from __future__ import annotations

import os
from dataclasses import dataclass, field
from typing import Any, Callable

TIER = os.environ.get("VERIF_TIER", "quick")
TWIN = os.environ.get("VF_TWIN") == "1"
SEED = int(os.environ.get("VERIF_SEED", "0") or 0)
# shard index of this worker process (-1: not sharded); preconditions may pin one symbolic input to it
SHARD = int(os.environ.get("VF_SHARD", "-1") or -1)


def done(ok: Any) -> bool:
    """Final statement of every crosshair harness."""
    if TWIN:
        return False
    return bool(ok)


def tier(quick: Any, thorough: Any) -> Any:
    return thorough if TIER == "thorough" else quick


@dataclass
class Obligation:
    name: str
    fn: Callable
    kind: str  # "crosshair" | "smt"
    encodes: list[str]
    bounds: str
    timeout_quick: int
    timeout_thorough: int
    tiers: tuple[str, ...] = ("quick", "thorough")
    stubs: list[str] = field(default_factory=list)
    real_replay: Callable | None = None  # (args: dict) -> (reproduced: bool, detail: str)
    carve: str = ""  # which known finding(s) the precondition excludes
    twin: bool = True
    shards: int = 0  # >0: decided by that many worker processes, each with VF_SHARD=i; all must hold

    @property
    def timeout(self) -> int:
        return self.timeout_thorough if TIER == "thorough" else self.timeout_quick


REGISTRY: dict[str, Obligation] = {}


def ob(
    name: str,
    *,
    kind: str = "crosshair",
    encodes: list[str],
    bounds: str,
    timeout: tuple[int, int] = (120, 600),
    tiers: tuple[str, ...] = ("quick", "thorough"),
    stubs: list[str] | None = None,
    real_replay: Callable | None = None,
    carve: str = "",
    twin: bool = True,
    shards: tuple[int, int] = (0, 0),
) -> Callable:
    def deco(fn: Callable) -> Callable:
        REGISTRY[name] = Obligation(
            name=name,
            fn=fn,
            kind=kind,
            encodes=encodes,
            bounds=bounds,
            timeout_quick=timeout[0],
            timeout_thorough=timeout[1],
            tiers=tiers,
            stubs=stubs or [],
            real_replay=real_replay,
            carve=carve,
            twin=twin,
            shards=shards[1] if TIER == "thorough" else shards[0],
        )
        return fn

    return deco


def alias(new_name: str, old_name: str, note: str = "") -> None:
    """Register an obligation of another property under this property's name as well: properties overlap, and a check must include
    every mechanism whose failure breaks ITS property (the harness, bounds and replay are shared)."""
    import copy

    o = copy.copy(REGISTRY[old_name])
    o.name = new_name
    if note:
        o.bounds = f"[shared with {old_name}] {note} - " + o.bounds
    else:
        o.bounds = f"[shared with {old_name}] " + o.bounds
    REGISTRY[new_name] = o


@dataclass
class SmtResult:
    """Result of an E2/E3 obligation."""

    verdict: str  # "holds" | "counterexample" | "inconclusive"
    queries: int = 0
    solver_s: float = 0.0
    detail: str = ""
    model: dict | None = None  # counterexample values (JSON-able)
    samples: list = field(default_factory=list)
    programs: int = 0
