"""Helpers for E2/E3 obligations: discharge a z3 query, optionally cross-check with cvc5, report uniformly."""
from __future__ import annotations

import os
import subprocess
import tempfile
import time

import z3

from vf.registry import TIER


def check(constraints: list, timeout_s: float = 120.0, cross_check: bool | None = None, logic: str | None = None):
    """Returns (verdict, model or None, solver_seconds, notes).  verdict in {'unsat','sat','unknown'}.
    With cross_check (default: thorough tier) the query is also given to the cvc5 binary; disagreement or an
    (error line makes the verdict 'unknown' (inconclusive)."""
    s = z3.Solver()
    s.set("timeout", int(timeout_s * 1000))
    for c in constraints:
        s.add(c)
    t0 = time.perf_counter()
    r = s.check()
    dt = time.perf_counter() - t0
    verdict = str(r)
    model = s.model() if verdict == "sat" else None
    notes = []
    if cross_check is None:
        cross_check = TIER == "thorough"
    if cross_check and verdict in ("sat", "unsat"):
        smt2 = s.to_smt2()
        if logic:
            smt2 = f"(set-logic {logic})\n" + smt2
        with tempfile.NamedTemporaryFile("w", suffix=".smt2", delete=False) as f:
            f.write(smt2)
            path = f.name
        try:
            t1 = time.perf_counter()
            p = subprocess.run(["cvc5", "--lang", "smt2", f"--tlimit={int(timeout_s * 1000)}", path], capture_output=True, text=True, timeout=timeout_s + 30)
            dt += time.perf_counter() - t1
            out = (p.stdout + p.stderr).strip().splitlines()
            first = out[0].strip() if out else ""
            if any("(error" in ln for ln in out):
                notes.append(f"cvc5 error: {out[:2]}")
            elif first in ("sat", "unsat"):
                if first != verdict:
                    notes.append(f"solvers disagree: z3 {verdict}, cvc5 {first}")
                    verdict = "unknown"
                else:
                    notes.append(f"cvc5 agrees: {first}")
            else:
                notes.append(f"cvc5 inconclusive: {first[:60]}")
        except (subprocess.TimeoutExpired, FileNotFoundError) as e:
            notes.append(f"cvc5 not run: {type(e).__name__}")
        finally:
            os.unlink(path)
    return verdict, model, dt, notes
