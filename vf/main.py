"""Check driver: ``python -m vf.main <property-id> quick|thorough`` or ``--replay <file>``.

Exit codes: 0 nothing violated among everything explored (INCONCLUSIVE lines allowed),
1 reproduced, unlisted violation (``VIOLATION property=<id> replay=<path>``), 2 harness error.
"""
from __future__ import annotations

import concurrent.futures as cf
import importlib
import json
import os
import subprocess
import sys
import time
from pathlib import Path

ROOT = Path(__file__).resolve().parent.parent
# scratch runs (seed screening against a worktree put first on PYTHONPATH) write their evidence and replays elsewhere
OUT = Path(os.environ["VF_OUT"]) if os.environ.get("VF_OUT") else ROOT
PY = sys.executable
NPROC = int(os.environ.get("VF_JOBS", "0") or 0) or (os.cpu_count() or 4)


def _worker(mod: str, name: str, mode: str, arg: str | None, timeout: float, env_extra: dict | None = None) -> dict:
    env = dict(os.environ)
    env["PYTHONDONTWRITEBYTECODE"] = "1"
    env["PYTHONHASHSEED"] = "0"
    if env_extra:
        env.update(env_extra)
    cmd = [PY, "-m", "vf.ch", mod, name, mode] + ([arg] if arg is not None else [])
    t0 = time.time()
    try:
        p = subprocess.run(cmd, cwd=ROOT, env=env, capture_output=True, text=True, timeout=timeout)
    except subprocess.TimeoutExpired:
        return {"verdict": "inconclusive", "message": f"hard timeout after {timeout:.0f}s", "wall_s": round(time.time() - t0, 1)}
    for line in reversed(p.stdout.splitlines()):
        if line.startswith("@@RESULT "):
            r = json.loads(line[len("@@RESULT "):])
            r.setdefault("wall_s", round(time.time() - t0, 1))
            return r
    return {
        "verdict": "harness-error",
        "message": f"worker produced no result (rc={p.returncode})",
        "trace": (p.stderr or "")[-3000:],
        "wall_s": round(time.time() - t0, 1),
    }


def _merge(rs: list) -> dict:
    """Combine the verdicts of the shards of one obligation: any counterexample wins, then harness errors,
    then inconclusive; 'holds' only if every shard holds."""
    out = {
        "paths": sum(r.get("paths", 0) or 0 for r in rs),
        "solver_s": round(sum(r.get("solver_s", 0) or 0 for r in rs), 3),
        "solver_checks": sum(r.get("solver_checks", 0) or 0 for r in rs),
        "queries": sum(r.get("queries", 0) or 0 for r in rs),
        "programs": sum(r.get("programs", 0) or 0 for r in rs),
        "wall_s": max(r.get("wall_s", 0) or 0 for r in rs),
        "samples": [x for r in rs for x in (r.get("samples") or [])][:6],
        "shards": len(rs),
    }
    for want in ("counterexample", "harness-error", "inconclusive"):
        for r in rs:
            if r.get("verdict") == want:
                out.update({k: r.get(k) for k in ("verdict", "message", "args", "state", "trace", "shard")})
                return out
    out.update(verdict="holds", message=rs[0].get("message"))
    return out


def _merge_twins(rs: list) -> dict:
    # every shard must be reachable on its own, otherwise that shard is vacuous
    ok = all(r.get("reachable") for r in rs)
    first = next((r for r in rs if r.get("reachable")), rs[0])
    bad = next((r for r in rs if not r.get("reachable")), None)
    return {"reachable": ok, "args": first.get("args"), "message": (bad or first).get("message")}


def _write_replay(prop: str, obname: str, mod: str, args: dict, message: str, detail: dict) -> Path:
    d = OUT / "replays"
    d.mkdir(parents=True, exist_ok=True)
    path = d / f"{obname.replace('.', '_')}.json"
    path.write_text(
        json.dumps(
            {"property": prop, "obligation": obname, "module": mod, "args": args, "message": message, "replay": detail},
            indent=1,
            default=repr,
        )
    )
    return path


def replay(path: str) -> int:
    d = json.loads(Path(path).read_text())
    r = _worker(d["module"], d["obligation"], "concrete", json.dumps(d["args"]), 600, {"VERIF_TIER": "thorough"})
    print(json.dumps(r, indent=1))
    r2 = _worker(d["module"], d["obligation"], "realreplay", json.dumps(d["args"]), 600, {"VERIF_TIER": "thorough"})
    print(json.dumps(r2, indent=1))
    if r.get("reproduced") or r2.get("reproduced"):
        print(f"VIOLATION property={d['property']} replay={path}")
        return 1
    return 0


def load_findings(prop: str) -> list[dict]:
    f = ROOT / "known_findings.json"
    if not f.exists():
        return []
    data = json.loads(f.read_text())
    return [x for x in data.get("findings", []) if x.get("property") == prop and x.get("status", "open") == "open"]


def run_finding(fd: dict) -> tuple[bool | None, str]:
    """Re-run the concrete reproduction of a listed finding on the real stack."""
    code = (
        "import sys, json; sys.path.insert(0, %r)\n"
        "import importlib\n"
        "m = importlib.import_module(%r)\n"
        "ok, detail = getattr(m, %r)()\n"
        "print('@@F ' + json.dumps([bool(ok), str(detail)]))\n"
    ) % (str(ROOT), fd["repro"].split(":")[0], fd["repro"].split(":")[1])
    try:
        p = subprocess.run([PY, "-c", code], cwd=ROOT, capture_output=True, text=True, timeout=300)
    except subprocess.TimeoutExpired:
        return None, "timeout"
    for line in p.stdout.splitlines():
        if line.startswith("@@F "):
            ok, detail = json.loads(line[4:])
            return ok, detail
    return None, (p.stderr or "")[-500:]


def main(argv: list[str]) -> int:
    if argv and argv[0] == "--replay":
        return replay(argv[1])
    prop, tier = argv[0], (argv[1] if len(argv) > 1 else os.environ.get("VERIF_TIER", "quick"))
    os.environ["VERIF_TIER"] = tier
    seed = int(os.environ.get("VERIF_SEED", "0") or 0)
    t_start = time.time()
    sys.path.insert(0, str(ROOT))
    mod = f"obligations.{prop}"
    m = importlib.import_module(mod)
    from vf.registry import REGISTRY

    meta = getattr(m, "META", {})
    level = meta.get("level", "other")
    obs = [o for o in REGISTRY.values() if tier in o.tiers and o.name.startswith(prop + ".")]
    only = os.environ.get("VF_ONLY")
    if only:
        obs = [o for o in obs if any(s in o.name for s in only.split(","))]

    harness_errors: list[str] = []

    # 1. contract validation (stubs vs. real libraries), concrete, start-up
    contracts: list = []
    if hasattr(m, "validate_contracts"):
        try:
            contracts = list(m.validate_contracts())
        except Exception as e:  # noqa: BLE001
            contracts = [("validate_contracts", False, repr(e))]
        for cname, ok, detail in contracts:
            if not ok:
                harness_errors.append(f"contract {cname}: {detail}")

    # 2. decide obligations (+ witness twins) in parallel, one OS process each (sharded ones: one per shard)
    jobs = {}
    shard_results: dict[str, list] = {}
    shard_twins: dict[str, list] = {}
    with cf.ThreadPoolExecutor(max_workers=NPROC) as ex:
        for mode in ("check", "twin"):
            for o in sorted(obs, key=lambda o: -o.timeout):
                if mode == "twin" and not (o.kind == "crosshair" and o.twin):
                    continue
                hard = o.timeout * 1.3 + 90
                for sh in range(o.shards) if o.shards else [-1]:
                    env = {"VERIF_TIER": tier, "VF_SHARD": str(sh)}
                    if mode == "twin":
                        env["VF_TWIN"] = "1"
                    jobs[ex.submit(_worker, mod, o.name, mode, None, hard, env)] = (mode, o, sh)
        for fut in cf.as_completed(jobs):
            mode, o, sh = jobs[fut]
            r = fut.result()
            r["shard"] = sh
            (shard_results if mode == "check" else shard_twins).setdefault(o.name, []).append(r)
    results = {name: _merge(rs) for name, rs in shard_results.items()}
    twins = {name: _merge_twins(rs) for name, rs in shard_twins.items()}

    violations = []
    inconclusive = []
    ob_reports = []
    total_paths = total_queries = 0
    solver_s = 0.0
    decided_nontrivial = 0
    samples = []
    programs = 0
    for o in obs:
        r = results[o.name]
        tw = twins.get(o.name)
        verdict = r.get("verdict")
        rep = {
            "obligation": o.name,
            "engine": o.kind,
            "functions_encoded": o.encodes,
            "bounds": o.bounds,
            "stubs_and_assumptions": o.stubs,
            "carved_known_findings": o.carve,
            "verdict": verdict,
            "message": (r.get("message") or "")[:600],
            "paths": r.get("paths", 0),
            "queries": r.get("queries", r.get("solver_checks", 0)),
            "solver_s": r.get("solver_s", 0.0),
            "wall_s": r.get("wall_s", 0.0),
        }
        if o.kind == "crosshair" and o.twin:
            rep["witness_twin_reachable"] = bool(tw and tw.get("reachable"))
            rep["witness_twin_input"] = (tw or {}).get("args")
        total_paths += rep["paths"] or 0
        total_queries += rep["queries"] or 0
        solver_s += rep["solver_s"] or 0.0
        programs += r.get("programs", 0) or 0
        if r.get("samples"):
            samples.extend(r["samples"][:3])

        if verdict == "harness-error":
            harness_errors.append(f"{o.name}: {r.get('message')}\n{r.get('trace', '')}")
        elif verdict == "holds":
            if o.kind == "crosshair" and o.twin and not rep["witness_twin_reachable"]:
                rep["verdict"] = "inconclusive"
                rep["message"] = "witness twin not reachable (vacuous or timed out): " + str((tw or {}).get("message"))[:300]
                inconclusive.append(o.name)
            else:
                decided_nontrivial += (rep["paths"] or 0) + (r.get("queries", 0) if o.kind == "smt" else 0)
                if tw and tw.get("args") is not None:
                    samples.append({"obligation": o.name, "witness_input": tw.get("args")})
        elif verdict == "inconclusive":
            inconclusive.append(o.name)
        elif verdict == "counterexample":
            args = r.get("args")
            if args is None:
                harness_errors.append(f"{o.name}: counterexample without parsable arguments: {r.get('message')}")
            else:
                c = _worker(mod, o.name, "concrete", json.dumps(args), 600, {"VERIF_TIER": tier})
                rr = _worker(mod, o.name, "realreplay", json.dumps(args), 600, {"VERIF_TIER": tier})
                rep["replay_concrete"] = c
                rep["replay_real_stack"] = rr
                if not c.get("reproduced"):
                    harness_errors.append(
                        f"{o.name}: counterexample {args} did not reproduce on concrete re-run: {c.get('detail')} {c.get('message', '')}"
                    )
                elif rr.get("reproduced") is False:
                    harness_errors.append(
                        f"{o.name}: counterexample {args} reproduces against stubs but not on the real stack "
                        f"({rr.get('detail')}) - a stub mis-states its contract"
                    )
                else:
                    path = _write_replay(prop, o.name, mod, args, r.get("message", ""), {"concrete": c, "real": rr})
                    violations.append((o.name, path, r.get("message", "")))
                    samples.append({"obligation": o.name, "counterexample": args})
        ob_reports.append(rep)

    # 3. listed findings: re-run their concrete reproduction
    known_lines = []
    for fd in load_findings(prop):
        ok, detail = run_finding(fd)
        if ok:
            known_lines.append(f"KNOWN-FINDING: property={prop} {fd['id']}: {fd['what']}")
        elif ok is None:
            print(f"NOTE finding {fd['id']} reproduction could not run: {detail}")
        else:
            print(f"NOTE finding {fd['id']} no longer reproduces ({detail})")

    wall = time.time() - t_start
    n_holds = sum(1 for r in ob_reports if r["verdict"] == "holds")
    coverage = {
        "explanation": (
            "Solver-based checking of the real code: each obligation drives real fakesnow functions (imported from "
            "/repo's working tree on this run) with symbolic inputs under CrossHair (symbolic execution, z3) or feeds "
            "the SQL/terms the real code emits into direct z3 queries; 'holds' means every path / the query was decided "
            "within the stated bounds, nothing is claimed outside them. "
            + meta.get("explanation", "")
        ),
        "evaluations": int(total_paths + total_queries),
        "distinct_nontrivial": int(decided_nontrivial),
        "rule": (
            "a case is one symbolic execution path explored by CrossHair (distinct path conditions by construction) or "
            "one SMT query; it counts as non-trivial only if it belongs to an obligation that was fully decided AND "
            "whose witness twin (assertion replaced by False) was reachable, i.e. the harness is not vacuous"
        ),
        "obligations": len(ob_reports),
        "discharged": n_holds,
        "inconclusive": inconclusive,
        "solver_time_s": round(solver_s, 2),
        "paths": int(total_paths),
        "smt_queries": int(total_queries),
        "per_obligation": ob_reports,
        "contracts_validated": [{"contract": c, "ok": ok, "detail": str(d)[:200]} for c, ok, d in contracts],
        "samples": samples[:12] or [{"note": "no obligation produced a sample"}],
        "exhaustive": False,
        "known_findings_reproduced": known_lines,
    }
    if level == "translation_validation":
        coverage["programs"] = int(programs) or len(ob_reports)
        coverage["disagreements_checked"] = len(violations)
    if level == "model_checking":
        coverage["states"] = max(1, int(total_paths))
        coverage["transitions"] = max(1, int(total_paths))
        coverage["traces_validated_against_impl"] = len(violations) + len(known_lines)
    ev = {
        "property_id": prop,
        "tier": tier,
        "seed": seed,
        "level": level,
        "coverage": coverage,
        "assumptions": meta.get("assumptions", []),
        "wall_s": round(wall, 1),
        "violations": len(violations),
    }
    (OUT / "evidence").mkdir(parents=True, exist_ok=True)
    (OUT / "evidence" / f"{prop}.json").write_text(json.dumps(ev, indent=1, default=repr))

    for r in ob_reports:
        print(
            f"OBLIGATION {r['obligation']} verdict={r['verdict']} paths={r['paths']} queries={r['queries']} "
            f"solver_s={r['solver_s']} wall_s={r['wall_s']}"
        )
    for name in inconclusive:
        print(f"INCONCLUSIVE obligation={name}")
    for line in known_lines:
        print(line)
    if harness_errors:
        for h in harness_errors:
            print(f"HARNESS-ERROR {h}")
    for name, path, msg in violations:
        print(f"  counterexample {name}: {msg[:300]}")
        print(f"VIOLATION property={prop} replay={path}")
    if violations:
        return 1
    if harness_errors:
        return 2
    print(f"OK property={prop} tier={tier} obligations={len(ob_reports)} held={n_holds} inconclusive={len(inconclusive)} wall_s={wall:.0f}")
    return 0


if __name__ == "__main__":
    sys.exit(main(sys.argv[1:]))
