#!/bin/bash
# usage: tools_screen.sh <worktree with the change applied> <property> [tier]
# Screening only: runs the property's check against a scratch worktree (put first on PYTHONPATH) without touching /repo, /verif/evidence or /verif/replays.
# The recorded result of a seed always comes from tools_runseed.sh (patch applied to /repo itself).
wt=$1; prop=$2; tier=${3:-quick}; out=/tmp/screen_$(basename $wt)
mkdir -p $out; cd /verif
PYTHONPATH=$wt VF_OUT=$out ./run $prop $tier > $out/log.txt 2>&1; rc=$?
echo "$(basename $wt) prop=$prop rc=$rc $(grep -E '^VIOLATION|^HARNESS-ERROR' $out/log.txt | head -2 | cut -c1-170)"
