#!/usr/bin/env python3
"""Process finished seed worktrees /tmp/wt_<Cxx>_<round>: confirm, store under seeded/, run the check, record meta. usage: tools_batch.py <round> [ids...]"""
import glob, json, os, re, subprocess, sys
rnd = sys.argv[1]
ids = sys.argv[2:] or [os.path.basename(d)[3:6] for d in sorted(glob.glob(f"/tmp/wt_C??_{rnd}"))]
for pid in ids:
    wt = f"/tmp/wt_{pid}_{rnd}"
    name = f"{pid}_{rnd}"
    if not os.path.exists(f"{wt}/seed_out/patch.diff") or not os.path.exists(f"{wt}/seed_out/meta.json"):
        print(name, "NOT READY"); continue
    if os.path.exists(f"/verif/seeded/{name}/meta.json") and json.load(open(f"/verif/seeded/{name}/meta.json")).get("detected") is not None and "--force" not in sys.argv:
        print(name, "already processed"); continue
    out = subprocess.run(["/verif/tools_seed.sh", wt], capture_output=True, text=True).stdout
    suite = re.search(r"(\d+) failed, (\d+) passed", out)
    d_with = re.search(r"expect non-zero\): (\d+)", out)
    d_without = re.search(r"expect 0\): (\d+)", out)
    ok = bool(suite and suite.group(2) == "196" and suite.group(1) == "2" and d_with and d_with.group(1) != "0" and d_without and d_without.group(1) == "0")
    os.makedirs(f"/verif/seeded/{name}", exist_ok=True)
    for f in os.listdir(f"{wt}/seed_out"):
        subprocess.run(["cp", "-r", f"{wt}/seed_out/{f}", f"/verif/seeded/{name}/"])
    if not ok:
        print(name, "CONFIRMATION FAILED:", out[-300:].replace("\n", " | ")); continue
    r = subprocess.run(["/verif/tools_runseed.sh", f"/verif/seeded/{name}"], capture_output=True, text=True).stdout.strip()
    log = f"/tmp/seedrun_{name}.log"
    viol = [l.strip() for l in open(log) if l.startswith("VIOLATION") or l.startswith("  counterexample")] if os.path.exists(log) else []
    harness = [l.strip()[:300] for l in open(log) if l.startswith("HARNESS-ERROR")] if os.path.exists(log) else []
    m = json.load(open(f"/verif/seeded/{name}/meta.json"))
    m["confirmed"] = "in the agent's scratch worktree (since removed): patch applied to a clean checkout: existing suite unchanged (196 passed, same 2 baseline failures), demo exits 1 with the change and 0 after git apply -R (tools_seed.sh)"
    m["ran"] = f"tools_runseed.sh: git -C /repo apply patch.diff; ./run {m['property']} quick; git -C /repo checkout -- ."
    m["detected"] = any(l.startswith("VIOLATION") for l in viol)
    m["detected_by"] = sorted(set(re.findall(r"counterexample (C\d+\.\w+)", " ".join(viol))))
    json.dump(m, open(f"/verif/seeded/{name}/meta.json", "w"), indent=1)
    print(name, "detected" if m["detected"] else "MISSED", m["detected_by"], ("HARNESS: " + harness[0]) if harness else "", "|", str(m.get("summary", ""))[:140])
