#!/bin/bash
# usage: tools_rebase_seed.sh <seed-dir> <clean worktree of /repo at HEAD>
# Re-creates a stored seed whose patch no longer applies because a later "fix:" commit touched neighbouring lines: applies it with fuzz in the
# scratch worktree, regenerates patch.diff, and confirms it again (suite unchanged, demo fails with / passes without).  Leaves the seed alone if that fails.
sd=$1; wt=$2; name=$(basename $sd)
cd $wt || exit 2
git checkout -q -- . ; rm -f fakesnow/*.orig fakesnow/*.rej
if git apply --check $sd/patch.diff 2>/dev/null; then echo "$name applies as is"; exit 0; fi
if ! patch -p1 --fuzz=3 -s < $sd/patch.diff; then echo "$name NEEDS-MANUAL-REBASE"; rm -f fakesnow/*.orig fakesnow/*.rej; git checkout -q -- .; exit 1; fi
rm -f fakesnow/*.orig fakesnow/*.rej
git diff > /tmp/rebased_$name.diff
suite=$(/venv/bin/python -m pytest -q -p no:cacheprovider 2>&1 | tail -1)
demo=$sd/demo.py; [ -f $demo ] || demo=$sd/demo_test.py
run() { if [[ $demo == *_test.py ]]; then PYTHONPATH=. /venv/bin/python -m pytest -q -p no:cacheprovider $demo >/dev/null 2>&1; else PYTHONPATH=. /venv/bin/python $demo >/dev/null 2>&1; fi; echo $?; }
with=$(run); git checkout -q -- .; without=$(run)
echo "$name fuzz-rebased: suite [$suite] demo with=$with without=$without"
if [[ "$suite" == *"196 passed"* && "$with" != "0" && "$without" == "0" ]]; then
  cp /tmp/rebased_$name.diff $sd/patch.diff
  python3 - <<PY
import json
p='$sd/meta.json'; m=json.load(open(p)); m['rebased']="patch re-created on $(git -C /repo rev-parse --short HEAD) (context lines moved by later fix: commits); confirmed again: suite unchanged, demo fails with / passes without"; json.dump(m,open(p,'w'),indent=1)
PY
  echo "$name stored"
else
  echo "$name NOT-CONFIRMED after rebase"
fi
