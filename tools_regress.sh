#!/bin/bash
# usage: tools_regress.sh [jobs] ; re-runs every stored seed against the current checks, in parallel, each in a scratch worktree of /repo put first on
# PYTHONPATH (screening only: /repo, /verif/evidence and /verif/replays are not touched; the recorded results in seeded/*/meta.json come from tools_runseed.sh)
jobs=${1:-3}
one() {
  sd=$1; name=$(basename $sd); wt=/tmp/regress_wt_$name; out=/tmp/regress_out_$name
  prop=$(python3 -c "import json; print(json.load(open('$sd/meta.json'))['property'])")
  git -C /repo worktree add -q --detach $wt HEAD 2>/dev/null || { echo "$name WORKTREE-FAILED"; return; }
  if git -C $wt apply $sd/patch.diff 2>/dev/null; then
    mkdir -p $out; (cd /verif && PYTHONPATH=$wt VF_OUT=$out ./run $prop quick > $out/log.txt 2>&1); rc=$?
    echo "$name prop=$prop rc=$rc $(grep -E '^VIOLATION|^HARNESS-ERROR' $out/log.txt | head -1 | cut -c1-120)"
  else
    echo "$name PATCH-DOES-NOT-APPLY (the tree moved on: a fix: commit touches the same lines)"
  fi
  git -C /repo worktree remove --force $wt; rm -rf $out
}
export -f one
ls -d /verif/seeded/*/ | sed 's:/$::' | xargs -P $jobs -I{} bash -c 'one {}'
git -C /repo worktree prune
