#!/bin/bash
# Build the overlay venv (offline): /venv's packages + /repo on the path, plus crosshair/z3/cvc5 from the wheelhouse.
set -e
cd "$(dirname "$0")"
if [ ! -x .venv/bin/python ] || ! .venv/bin/python -c "import crosshair, z3" 2>/dev/null; then
  rm -rf .venv
  /venv/bin/python -m venv .venv
  SP=$(.venv/bin/python -c "import sysconfig; print(sysconfig.get_paths()['purelib'])")
  printf "import site; site.addsitedir('/venv/lib/python3.12/site-packages')\n/repo\n" > "$SP/_base.pth"
  PIP_NO_INDEX=1 .venv/bin/pip install -q --no-index --find-links /opt/veriftools/wheels crosshair-tool z3-solver cvc5 jsonschema >/dev/null
fi
.venv/bin/python -c "import crosshair, z3, fakesnow, duckdb, sqlglot" 
