#!/usr/bin/env python3
"""Regenerate MANIFEST.json from the table below (kept next to the checks so the two cannot drift)."""
import json, os, sys
ROOT = os.path.dirname(os.path.abspath(__file__))

NOTE_TRUST = (
    "Trusted: DuckDB's execution/MVCC/WAL, pyarrow and the connector's C++ conversions, sqlglot's parsing of whole "
    "statements (contracts K1-K10 in DESIGN.md 2.7, validated concretely at start-up where a check uses them). "
    "Bounds are per obligation in the evidence file; nothing is claimed outside them."
)

CHECKS = {
    "C05": dict(
        category="other",
        text="Bounded symbolic execution (CrossHair/z3) of the real cursor fetch API: symbolic result rows, column-name "
        "patterns, arraysize and call sequence against a reference model; every path within the bounds is decided, "
        "counterexamples are replayed on real DuckDB/pyarrow.",
        design_ref="3 C05",
        technique="symbolic execution of the real Python functions with CrossHair (z3), environment stubs, replay on the real stack",
    ),
    "C14": dict(
        category="other",
        text="Bounded symbolic execution (CrossHair/z3) of the real connect ladder over the complete product of connect arguments, "
        "letter case, both auto-create flags, storage mode, pre-existing database/schema and a second live session, against a DuckDB "
        "catalog stand-in validated against real DuckDB; counterexamples are replayed on real DuckDB.",
        design_ref="3 C14",
        technique="symbolic execution of the real Python functions with CrossHair (z3) over a catalog stub; replay on the real stack",
    ),
    "C04": dict(
        category="other",
        text="Bounded symbolic execution (CrossHair/z3) of the real execute path: the affected-row count DuckDB reports is a symbolic "
        "integer and the status row, its column names and rowcount must equal it for every DML form; DDL status text over a pool of "
        "object spellings and qualification levels.",
        design_ref="3 C04",
        technique="symbolic execution of the real Python functions with CrossHair (z3), symbolic engine answers; replay on the real stack",
    ),
    "C20": dict(
        category="other",
        text="Bounded symbolic execution (CrossHair/z3) of the real CLI argument splitter composed with the real argparse parser and "
        "cli.main on symbolic argv strings (any unicode within the length bound, every option spelling), and of the real patch() "
        "generator over symbolic choices of extra targets, exit mode and nesting with the real unittest.mock.",
        design_ref="3 C20",
        technique="symbolic execution of the real Python functions with CrossHair (z3); real argparse/unittest.mock; recorders for runpy",
    ),
    "C08": dict(
        category="other",
        text="Bounded symbolic execution (CrossHair/z3): a symbolic parameter string over all of unicode (length-bounded) goes through the "
        "connector's real escape/quote, the real sqlglot Snowflake string lexer and the real DuckDB literal generator and must come back "
        "unchanged as exactly one literal; the real _rewrite_with_params / execute / executemany are driven with symbolic placeholder "
        "layouts, values and paramstyles against a recording engine.",
        design_ref="3 C08",
        technique="symbolic execution of the real Python functions with CrossHair (z3) at unit level (lexer/generator routines) and API level; replay on the real stack",
    ),
    "C16": dict(
        category="other",
        text="Bounded symbolic execution (CrossHair/z3): symbolic literal and quoted-identifier text (unicode, length-bounded) through the "
        "real re-rendering step of execute_string and the real Snowflake lexer routines; the real execute_string / execute with "
        "symbolic choices of statements, separators, comments, cursor class and nop patterns against a stub engine, compared with "
        "one-by-one execution on an identical session.",
        design_ref="3 C16",
        technique="symbolic execution of the real Python functions with CrossHair (z3); differential harness (execute_string vs one-by-one); replay on the real stack",
    ),
    "C15": dict(
        category="other",
        text="Bounded symbolic execution (CrossHair/z3) of the real variable substitution on symbolic SQL text around a reference (any "
        "unicode, length-bounded) for sets of prefix- and case-related variable names, with the regex calls of the real code interpreted "
        "by a reference matcher driven by the pattern strings the code itself builds; SET/UNSET/use histories over two connections x "
        "two cursors through the real execute.",
        design_ref="3 C15",
        technique="symbolic execution of the real Python functions with CrossHair (z3); regex interpreter over the code's own patterns; replay with the real re module",
    ),
    "C03": dict(
        category="model_checking",
        text="Bounded symbolic model checking of one transition of the session state machine: from every class of state connect() can "
        "establish (plus, as a sanity net, every state one further statement reaches) the real execute() runs one statement of 12 kinds "
        "with symbolic names/qualification against a DuckDB catalog stand-in; invariant, name resolution, 90105/90106 guards, "
        "failure frame conditions and non-interference with a second session are asserted; histories follow by induction.",
        design_ref="3 C03",
        technique="CrossHair (z3) exploration of one inductive step of the real state-changing code over a catalog stub; replay on real DuckDB",
    ),
    "C06": dict(
        category="other",
        text="Bounded symbolic execution (CrossHair/z3) of the real DuckDB-type -> Snowflake rowtype/ResultMetadata conversion on symbolic "
        "type strings (tag over the set of types real DuckDB reports for fakesnow's columns and ~70 expression forms, symbolic DECIMAL "
        "precision/scale, symbolic column names), and of execute + description/describe() for 33 statement kinds and at a symbolic "
        "point of the fetch sequence against a DuckDB stand-in (frame conditions: only DESCRIBE calls, nothing changes).",
        design_ref="3 C06",
        technique="symbolic execution of the real Python functions with CrossHair (z3) over an engine stub; replay on the real stack",
    ),
    "C07": dict(
        category="other",
        text="Bounded symbolic execution (CrossHair/z3) of the real error-translation path: 32 ways of naming something missing or duplicate at "
        "every qualification level, inside/outside a transaction, with follow-up use; DuckDB errors injected at a statement's first engine "
        "call through execute/executemany/execute_string; every public entry point on a closed connection.  Codes, sqlstate life cycle and "
        "frame conditions (session, variables, catalog, side tables, open transaction) are asserted; replay on real DuckDB.",
        design_ref="3 C07",
        technique="symbolic execution of the real Python functions with CrossHair (z3) over a fault-injecting engine stub; replay on the real stack",
    ),
    "C13": dict(
        category="model_checking",
        text="Bounded symbolic model checking of one step of the (sessions x cursors x transaction flags) machine through the real code: routing "
        "lemma (each statement and no hidden BEGIN/COMMIT/ROLLBACK reaches exactly its session's DuckDB connection), structural invariant "
        "(cursors share, sessions do not) for symbolic connect/cursor orders, no-op COMMIT/ROLLBACK.  Atomicity/visibility then follow "
        "from DuckDB's transaction contract (trusted, exercised in the replays).",
        design_ref="3 C13",
        technique="CrossHair (z3) exploration of one inductive step of the real code over an engine stub with per-connection transaction state; replay on real DuckDB",
    ),
    "C17": dict(
        category="other",
        text="SMT (z3; cvc5 cross-check in the thorough tier) over the terms the real arrow re-encoding functions compute when called with an "
        "operator-overloading pyarrow shim: for every microsecond timestamp of 0001..9999 (pre-1970 included, with/without UTC zone) and "
        "every TIME value the safe casts cannot fail and epoch*1e9+fraction / nanoseconds are exact; NULL-ness is a symbolic flag of every element "
        "(a NULL value is a NULL on the wire for every column kind, incl. the timestamp structs); metadata strings per rowtype.  "
        "CrossHair over the real request handlers (token lookup, response assembly vs. the in-process cursor).",
        design_ref="3 C17",
        technique="symbolic execution by operator overloading of the real functions into z3 terms (QF_BVFP+LIA), SMT query per property; CrossHair for handlers; replay on real pyarrow",
    ),
    "C12": dict(
        category="translation_validation",
        text="Translation validation by SMT: for ~100 MERGE shapes (targets in the session's schema and in another schema with a same-named bystander) the statements the real pipeline hands to DuckDB are captured at the engine "
        "boundary and symbolically executed (bounded symbolic SQL evaluator over z3: symbolic row presence, NULL flags and integer cells, "
        "three-valued logic, FULL OUTER JOIN, UPDATE..FROM, DELETE..USING, COUNT_IF) and compared with a direct encoding of Snowflake's "
        "MERGE semantics: final target bag, the three counts, source untouched; one query per shape over all contents within the row bounds.",
        design_ref="3 C12",
        technique="symbolic evaluation of the emitted SQL vs reference semantics, one z3 query per MERGE shape (cvc5 cross-check in thorough); evaluator validated against real DuckDB each run; replay on the real stack",
    ),
    "C10": dict(
        category="translation_validation",
        text="Translation validation of the argument plumbing of the rewrites: real transforms run on parsed skeletons whose numeric leaves are "
        "symbolic (REGEXP_SUBSTR position/occurrence/group, TO_DECIMAL family precision/scale, VALUES column count) under CrossHair; RANDOM's "
        "seed formula and BIGINT scaling as binary64 SMT lemmas built from the text/tree the real transform emits; EQUAL_NULL's macro body as "
        "a three-valued-logic SMT lemma; date parts, digest sizes, sampling methods and 13 constructs x 12 expression contexts through the "
        "whole real transform pipeline.",
        design_ref="3 C10",
        technique="CrossHair (z3) on real transforms with symbolic AST leaves; z3 floating-point / 3VL queries over emitted expressions; replay on the real stack",
    ),
    "C18": dict(
        category="fault_enumeration",
        text="Kill points as symbolic variables: the real connect / execute run against a DuckDB stand-in and the process 'dies' at a symbolic "
        "engine-call index; for every statement kind that changes state in one engine call the surviving state is the pre- or the post-state "
        "(all-or-nothing under DuckDB's per-call durability); the database file chosen by the connect path and by the CREATE DATABASE path "
        "agree for every name spelling and db_path form, and in-memory instances never build a path.  Multi-call statements are listed findings.",
        design_ref="3 C18",
        technique="CrossHair (z3) exploration of the real code with a crash injected at a symbolic engine-call index over a catalog stub",
    ),
    "C19": dict(
        category="model_checking",
        text="Rely/guarantee interference instead of threads: one commit of another fakesnow session (attach the same database with its bootstrap, "
        "create the same schema, create/drop tables) is applied at a symbolic engine-call boundary inside the real connect() and inside "
        "statements; the code must finish as a serial order would.  The two check-then-create windows of connect() are listed findings; "
        "DuckDB's own thread safety and free-running stress are not claimed.",
        design_ref="3 C19",
        technique="CrossHair (z3) exploration of the real code with an interference effect at a symbolic call boundary over a catalog stub",
    ),
    "C02": dict(
        category="other",
        text="Bounded symbolic execution (CrossHair/z3): the real folding transform, identifier equality and connect() on symbolic identifier text "
        "(any unicode, length-bounded); a differential harness over the whole real pipeline in which the letter case of each keyword / unquoted "
        "identifier token of 49 statement skeletons is a symbolic choice and the complete observable outcome (SQL reaching the engine modulo "
        "DuckDB's own case-insensitivity, rows, status, error, session, variables, catalog) must equal that of the all-upper spelling.",
        design_ref="3 C02",
        technique="CrossHair (z3) on real functions with symbolic strings; differential (metamorphic) harness with symbolic case bits over an engine stub; replay on the real stack",
    ),
    "C11": dict(
        category="translation_validation",
        text="Translation validation of the semi-structured rewrites: symbolic object keys (unicode, length-bounded) and array indices through "
        "the real path-building transform (CrossHair); the ARRAY_SIZE wrapper as an SMT lemma over an axiomatised json_array_length; the "
        "operator chosen (->> vs ->), its parenthesisation, the pairs kept by OBJECT_CONSTRUCT and the FLATTEN / type rewrites for symbolic "
        "choices of outer operation, cast target, path form, operator context and NULL placement, read off the SQL reaching the engine.  "
        "What DuckDB computes for those operators is trusted; six defects found this way are listed findings.",
        design_ref="3 C11",
        technique="CrossHair (z3) on real transforms with symbolic leaves; z3 query for the CASE wrapper; structural validation of emitted SQL over symbolic choices; replay on the real stack",
    ),
    "C01": dict(
        category="other",
        text="SMT per Snowflake type keyword (39 spellings x 3 DDL forms): the DuckDB type is read off the CREATE TABLE / CTAS the real pipeline emits and "
        "z3 searches for a value the Snowflake type admits and the DuckDB type does not (scaled integers, binary64 vs binary32, microsecond "
        "counts), with no bound on the value; CrossHair over the real describe_as_rowtype for the Python-class consistency on symbolic type "
        "tags / precision / scale, and over the real write_pandas on symbolic column names.  Literal/parameter text is C08; exact storage "
        "and arrow conversion are DuckDB's/pyarrow's (trusted).",
        design_ref="3 C01",
        technique="z3 queries over type domains derived from the emitted DDL; CrossHair (z3) on real functions with symbolic strings/ints; replay on the real stack",
    ),
    "C09": dict(
        category="translation_validation",
        text="Translation validation of the metadata SQL: the CASE expressions of the _fs_columns_snowflake view and of the DESCRIBE TABLE query, the "
        "filters of the SHOW queries and the join conditions to the side tables are evaluated by z3 (strings, integers, three-valued logic) on "
        "symbolic catalog rows and compared with Snowflake's vocabulary, with describe_as_rowtype and with the statement's scope; the bookkeeping "
        "of comments and VARCHAR lengths (what is written, under which key, octet-length arithmetic) is driven through the real transforms / "
        "execute with symbolic lengths and symbolic choices of statement and qualification.  DuckDB's own catalog contents are trusted; five "
        "defects found here are listed findings.",
        design_ref="3 C09",
        technique="z3 (strings + LIA) evaluation of the SQL text the real code holds / emits; CrossHair (z3) on the real bookkeeping code over an engine stub; replay on the real stack",
    ),
}

NOT_YET = "not claimed yet: check not built in this round (see DESIGN.md 7 for the order of work)"

def main():
    props = [json.loads(l)["id"] for l in open(os.path.join(ROOT, "properties.jsonl"))]
    checks = []
    for pid in props:
        if pid not in CHECKS:
            continue
        c = CHECKS[pid]
        checks.append({
            "property_id": pid,
            "quick_cmd": f"./run {pid} quick",
            "thorough_cmd": f"./run {pid} thorough",
            "evidence_file": f"/verif/evidence/{pid}.json",
            "replay_cmd_template": "./run --replay {path}",
            "engine": "vf",
            "level_claimed": {"category": c["category"], "text": c["text"], "design_ref": c["design_ref"]},
            "level_note": c.get("note", NOTE_TRUST),
            "technique": c["technique"],
        })
    na = [{"property_id": p, "reason": NA.get(p, NOT_YET)} for p in props if p not in CHECKS]
    man = {
        "version": 1,
        "setup_cmd": "./setup.sh",
        "hooks": {
            "guard": "FAKESNOW_VERIF",
            "enable": "no source hooks: stubs are injected by constructing the real classes with stand-in collaborators and rebinding module globals from the harness; the guard name is reserved and unused",
            "baseline_off_cmd": "cd /repo && /venv/bin/python -m pytest -ra -q -p no:cacheprovider --timeout=900 --continue-on-collection-errors",
            "source_commits": [],
            "add_only": True,
        },
        "engines": [
            {"name": "vf", "path": "/verif/vf", "serves_properties": sorted(CHECKS), 
             "kind_free_text": "E1 CrossHair symbolic execution of real fakesnow functions with stubbed engines; E2 z3/cvc5 queries over shimmed kernels; E3 bounded symbolic SQL evaluation of emitted SQL"},
        ],
        "checks": checks,
        "not_applicable": na,
        "notes": "All checks: ./run <id> quick|thorough (cwd /verif). Exit 0 ok (INCONCLUSIVE lines allowed), 1 VIOLATION after replay, 2 harness error. Known findings: /verif/known_findings.json.",
    }
    json.dump(man, open(os.path.join(ROOT, "MANIFEST.json"), "w"), indent=1)
    print("checks:", [c["property_id"] for c in checks], "not_applicable:", len(na))

NA = {}

if __name__ == "__main__":
    main()
