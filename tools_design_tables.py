#!/usr/bin/env python3
"""Regenerate the machine-made tables of DESIGN.md (between the AUTO markers) from the obligation registry,
known_findings.json and seeded/*/meta.json, so the document cannot drift from what the checks do."""
import glob
import importlib
import json
import os
import re
import sys

ROOT = os.path.dirname(os.path.abspath(__file__))
sys.path.insert(0, ROOT)
os.environ.setdefault("VERIF_TIER", "quick")


def esc(x) -> str:
    return str(x).replace("|", "\\|").replace("\n", " ")


def obligations_md() -> str:
    from vf.registry import REGISTRY

    out = []
    for i in range(1, 21):
        pid = f"C{i:02d}"
        importlib.import_module(f"obligations.{pid}")
    by = {}
    for name, o in REGISTRY.items():
        by.setdefault(name.split(".")[0], []).append(o)
    for pid in sorted(by):
        out.append(f"#### {pid}\n")
        out.append("| obligation | engine | real functions driven | bounds (quick / thorough) | stubs | findings carved out |")
        out.append("|---|---|---|---|---|---|")
        for o in by[pid]:
            eng = "E1 CrossHair" if o.kind == "crosshair" else "E2/E3 SMT"
            out.append(
                f"| `{o.name.split('.', 1)[1]}` | {eng} | {esc('; '.join(o.encodes))} | {esc(o.bounds)} | {esc('; '.join(o.stubs) or '-')} | {esc(o.carve or '-')} |"
            )
        out.append("")
    return "\n".join(out)


def findings_md() -> str:
    d = json.load(open(os.path.join(ROOT, "known_findings.json")))
    out = ["| id | property | what fails | why recorded rather than repaired |", "|---|---|---|---|"]
    for f in d["findings"]:
        out.append(f"| {f['id']} | {f['property']} | {esc(f['what'])} | {esc(f.get('why_not_fixed', ''))} |")
    out.append("")
    out.append("Repaired (`fix:` commits in /repo, each re-found by its check when reverted):\n")
    for f in d["fixed"]:
        out.append(f"* {f}")
    return "\n".join(out)


def seeds_md() -> str:
    out = ["| seed | property | change | needs | detected by | note |", "|---|---|---|---|---|---|"]
    for d in sorted(glob.glob(os.path.join(ROOT, "seeded", "*"))):
        try:
            m = json.load(open(os.path.join(d, "meta.json")))
        except Exception:  # noqa: BLE001
            continue
        det = ", ".join(m.get("detected_by") or []) or ("**not detected**" if not m.get("detected") else "")
        out.append(
            f"| {os.path.basename(d)} | {m.get('property')} | {esc(str(m.get('summary', ''))[:260])} | {esc(str(m.get('needs', ''))[:200])} | {det} | {esc(str(m.get('note', ''))[:300])} |"
        )
    return "\n".join(out)


def main() -> None:
    p = os.path.join(ROOT, "DESIGN.md")
    s = open(p).read()
    for tag, fn in (("OBLIGATIONS", obligations_md), ("FINDINGS", findings_md), ("SEEDS", seeds_md)):
        a, b = f"<!-- AUTO:{tag} -->", f"<!-- /AUTO:{tag} -->"
        if a in s and b in s:
            s = s[: s.index(a) + len(a)] + "\n" + fn() + "\n" + s[s.index(b) :]
    open(p, "w").write(s)
    print("DESIGN.md tables regenerated")


if __name__ == "__main__":
    main()
